module vsrewrite

go 1.23.0

require golang.org/x/tools v0.29.0
