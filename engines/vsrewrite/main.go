// vsrewrite rewrites the concurrency constructs of a Go package, purely
// syntactically, into calls to the vs virtual scheduler and swaps the imports
// of sync/time/context/runtime/semaphore for their shims.  It reads the
// sources from the working tree on every run and writes the rewritten copies
// plus a go build -overlay fragment; the repository is never modified.
package main

import (
	"bytes"
	"encoding/json"
	"flag"
	"fmt"
	"go/ast"
	"go/parser"
	"go/printer"
	"go/token"
	"os"
	"path/filepath"
	"sort"
	"strconv"
	"strings"

	"golang.org/x/tools/go/ast/astutil"
)

var (
	vsImport string
	counter  int
	used     bool
)

const vsName = "zzvs"

func vsSel(name string) ast.Expr {
	used = true
	return &ast.SelectorExpr{X: ast.NewIdent(vsName), Sel: ast.NewIdent(name)}
}

func call(fun ast.Expr, args ...ast.Expr) *ast.CallExpr {
	return &ast.CallExpr{Fun: fun, Args: args}
}

func unparen(e ast.Expr) ast.Expr {
	for {
		p, ok := e.(*ast.ParenExpr)
		if !ok {
			return e
		}
		e = p.X
	}
}

func isRecv(e ast.Expr) (*ast.UnaryExpr, bool) {
	u, ok := unparen(e).(*ast.UnaryExpr)
	if ok && u.Op == token.ARROW {
		return u, true
	}
	return nil, false
}

func rwExpr(e ast.Expr) ast.Expr {
	if e == nil {
		return nil
	}
	// wrap so that the root itself can be replaced
	holder := &ast.ParenExpr{X: e}
	astutil.Apply(holder, pre, nil)
	return holder.X
}

func rwStmts(list []ast.Stmt) []ast.Stmt {
	b := &ast.BlockStmt{List: list}
	astutil.Apply(b, pre, nil)
	return b.List
}

func rwStmt(s ast.Stmt) ast.Stmt {
	if s == nil {
		return nil
	}
	l := rwStmts([]ast.Stmt{s})
	return l[0]
}

func fresh(prefix string) *ast.Ident {
	counter++
	return ast.NewIdent(fmt.Sprintf("%s%d", prefix, counter))
}

// selectDefaultSites counts select statements with a default arm (DESIGN appendix A: arrival vs parking).
var selectDefaultSites int

func buildSelect(sel *ast.SelectStmt, label *ast.Ident) ast.Stmt {
	var pre []ast.Stmt
	var caseIdents []ast.Expr
	hasDefault := false
	sw := &ast.SwitchStmt{Body: &ast.BlockStmt{}}
	idx := 0
	for _, cl := range sel.Body.List {
		cc := cl.(*ast.CommClause)
		body := rwStmts(cc.Body)
		if cc.Comm == nil {
			hasDefault = true
			selectDefaultSites++
			sw.Body.List = append(sw.Body.List, &ast.CaseClause{List: nil, Body: body})
			continue
		}
		id := fresh("zzc")
		var bind ast.Stmt
		switch comm := cc.Comm.(type) {
		case *ast.SendStmt:
			// zzvs.S(ch).Case(v)
			e := call(&ast.SelectorExpr{X: call(vsSel("S"), rwExpr(comm.Chan)), Sel: ast.NewIdent("Case")}, rwExpr(comm.Value))
			pre = append(pre, &ast.AssignStmt{Lhs: []ast.Expr{id}, Tok: token.DEFINE, Rhs: []ast.Expr{e}})
		case *ast.ExprStmt:
			u, ok := isRecv(comm.X)
			if !ok {
				fatal("select case is not a receive")
			}
			pre = append(pre, &ast.AssignStmt{Lhs: []ast.Expr{id}, Tok: token.DEFINE, Rhs: []ast.Expr{call(vsSel("RecvCase"), rwExpr(u.X))}})
		case *ast.AssignStmt:
			u, ok := isRecv(comm.Rhs[0])
			if !ok {
				fatal("select case assignment is not a receive")
			}
			pre = append(pre, &ast.AssignStmt{Lhs: []ast.Expr{id}, Tok: token.DEFINE, Rhs: []ast.Expr{call(vsSel("RecvCase"), rwExpr(u.X))}})
			meth := "Value"
			if len(comm.Lhs) == 2 {
				meth = "Value2"
			}
			tok := comm.Tok
			if tok == token.DEFINE {
				allBlank := true
				for _, l := range comm.Lhs {
					if i, ok := l.(*ast.Ident); !ok || i.Name != "_" {
						allBlank = false
					}
				}
				if allBlank {
					tok = token.ASSIGN
				}
			}
			lhs := make([]ast.Expr, len(comm.Lhs))
			for i, l := range comm.Lhs {
				lhs[i] = rwExpr(l)
			}
			bind = &ast.AssignStmt{Lhs: lhs, Tok: tok, Rhs: []ast.Expr{call(&ast.SelectorExpr{X: id, Sel: ast.NewIdent(meth)})}}
		default:
			fatal("unexpected comm clause")
		}
		caseIdents = append(caseIdents, id)
		if bind != nil {
			body = append([]ast.Stmt{bind}, body...)
		}
		sw.Body.List = append(sw.Body.List, &ast.CaseClause{
			List: []ast.Expr{&ast.BasicLit{Kind: token.INT, Value: strconv.Itoa(idx)}}, Body: body})
		idx++
	}
	if !hasDefault {
		// keeps the statement terminating when every arm is (a select at the end of a
		// function whose arms all return); Select never returns an index without an arm
		sw.Body.List = append(sw.Body.List, &ast.CaseClause{List: nil, Body: []ast.Stmt{
			&ast.ExprStmt{X: call(ast.NewIdent("panic"), &ast.BasicLit{Kind: token.STRING, Value: `"zzvs: Select returned an arm that does not exist"`})}}})
	}
	args := []ast.Expr{ast.NewIdent(strconv.FormatBool(hasDefault))}
	args = append(args, caseIdents...)
	sw.Tag = call(vsSel("Select"), args...)
	var swStmt ast.Stmt = sw
	if label != nil {
		swStmt = &ast.LabeledStmt{Label: label, Stmt: sw}
	}
	return &ast.BlockStmt{List: append(pre, swStmt)}
}

func buildGo(g *ast.GoStmt) ast.Stmt {
	c := g.Call
	fun := rwExpr(c.Fun)
	if len(c.Args) == 0 {
		return &ast.ExprStmt{X: call(vsSel("Go"), funcValue(fun))}
	}
	// evaluate function value and arguments now, call later
	var stmts []ast.Stmt
	fid := fresh("zzf")
	stmts = append(stmts, &ast.AssignStmt{Lhs: []ast.Expr{fid}, Tok: token.DEFINE, Rhs: []ast.Expr{fun}})
	var args []ast.Expr
	for _, a := range c.Args {
		a = rwExpr(a)
		if lit, ok := a.(*ast.BasicLit); ok {
			args = append(args, lit)
			continue
		}
		if id, ok := a.(*ast.Ident); ok && (id.Name == "nil" || id.Name == "true" || id.Name == "false") {
			args = append(args, id)
			continue
		}
		aid := fresh("zza")
		stmts = append(stmts, &ast.AssignStmt{Lhs: []ast.Expr{aid}, Tok: token.DEFINE, Rhs: []ast.Expr{a}})
		args = append(args, aid)
	}
	inner := &ast.CallExpr{Fun: fid, Args: args, Ellipsis: c.Ellipsis}
	if c.Ellipsis != token.NoPos {
		inner.Ellipsis = 1
	}
	lit := &ast.FuncLit{Type: &ast.FuncType{Params: &ast.FieldList{}}, Body: &ast.BlockStmt{List: []ast.Stmt{&ast.ExprStmt{X: inner}}}}
	stmts = append(stmts, &ast.ExprStmt{X: call(vsSel("Go"), lit)})
	return &ast.BlockStmt{List: stmts}
}

// funcValue turns the callee of `go f()` into a func() value.  A function
// literal or a plain function/method value can be passed as is when it has
// no results; to stay independent of the signature we always wrap.
func funcValue(fun ast.Expr) ast.Expr {
	if fl, ok := fun.(*ast.FuncLit); ok && (fl.Type.Results == nil || len(fl.Type.Results.List) == 0) && (fl.Type.Params == nil || len(fl.Type.Params.List) == 0) {
		return fl
	}
	// method values bind the receiver now, like the go statement does
	return &ast.FuncLit{Type: &ast.FuncType{Params: &ast.FieldList{}},
		Body: &ast.BlockStmt{List: []ast.Stmt{&ast.ExprStmt{X: call(fun)}}}}
}

func pre(c *astutil.Cursor) bool {
	switch n := c.Node().(type) {
	case *ast.LabeledStmt:
		if sel, ok := n.Stmt.(*ast.SelectStmt); ok {
			c.Replace(buildSelect(sel, n.Label))
			return false
		}
	case *ast.SelectStmt:
		c.Replace(buildSelect(n, nil))
		return false
	case *ast.GoStmt:
		c.Replace(buildGo(n))
		return false
	case *ast.SendStmt:
		e := call(&ast.SelectorExpr{X: call(vsSel("S"), rwExpr(n.Chan)), Sel: ast.NewIdent("Send")}, rwExpr(n.Value))
		c.Replace(&ast.ExprStmt{X: e})
		return false
	case *ast.AssignStmt:
		if len(n.Lhs) == 2 && len(n.Rhs) == 1 {
			if u, ok := isRecv(n.Rhs[0]); ok {
				n.Rhs[0] = call(vsSel("Recv2"), rwExpr(u.X))
				for i := range n.Lhs {
					n.Lhs[i] = rwExpr(n.Lhs[i])
				}
				return false
			}
		}
	case *ast.ValueSpec:
		if len(n.Names) == 2 && len(n.Values) == 1 {
			if u, ok := isRecv(n.Values[0]); ok {
				n.Values[0] = call(vsSel("Recv2"), rwExpr(u.X))
				return false
			}
		}
	case *ast.UnaryExpr:
		if n.Op == token.ARROW {
			c.Replace(call(vsSel("Recv"), rwExpr(n.X)))
			return false
		}
	case *ast.CallExpr:
		if id, ok := n.Fun.(*ast.Ident); ok && id.Name == "close" && len(n.Args) == 1 {
			c.Replace(call(vsSel("Close"), rwExpr(n.Args[0])))
			return false
		}
	}
	return true
}

func fatal(msg string) {
	fmt.Fprintln(os.Stderr, "vsrewrite:", msg)
	os.Exit(2)
}

func main() {
	pkgDir := flag.String("pkg", "", "package directory to rewrite")
	outDir := flag.String("out", "", "output directory for rewritten files")
	overlay := flag.String("overlay", "", "overlay JSON fragment to write (map original -> rewritten)")
	flag.StringVar(&vsImport, "vs", "", "import path of the vs package")
	flag.Parse()
	if *pkgDir == "" || *outDir == "" || vsImport == "" {
		fatal("usage: vsrewrite -pkg dir -out dir -vs importpath [-overlay file]")
	}
	shims := map[string]string{
		"sync":                        vsImport + "/vsync",
		"time":                        vsImport + "/vtime",
		"context":                     vsImport + "/vcontext",
		"runtime":                     vsImport + "/vruntime",
		"golang.org/x/sync/semaphore": vsImport + "/vsemaphore",
	}
	defaultName := map[string]string{"sync": "sync", "time": "time", "context": "context", "runtime": "runtime",
		"golang.org/x/sync/semaphore": "semaphore", "sync/atomic": "atomic"}
	entries, err := os.ReadDir(*pkgDir)
	if err != nil {
		fatal(err.Error())
	}
	if err := os.MkdirAll(*outDir, 0o755); err != nil {
		fatal(err.Error())
	}
	replace := map[string]string{}
	var names []string
	for _, e := range entries {
		n := e.Name()
		if e.IsDir() || !strings.HasSuffix(n, ".go") || strings.HasSuffix(n, "_test.go") {
			continue
		}
		names = append(names, n)
	}
	sort.Strings(names)
	stats := map[string]int{}
	for _, n := range names {
		src := filepath.Join(*pkgDir, n)
		fset := token.NewFileSet()
		f, err := parser.ParseFile(fset, src, nil, parser.ParseComments)
		if err != nil {
			fatal(err.Error())
		}
		// keep build constraints, drop all other comments (positions of
		// synthesised nodes would misplace them)
		var header []string
		for _, cg := range f.Comments {
			if cg.End() >= f.Package {
				break
			}
			for _, cm := range cg.List {
				if strings.HasPrefix(cm.Text, "//go:build") || strings.HasPrefix(cm.Text, "// +build") {
					header = append(header, cm.Text)
				}
			}
		}
		f.Comments = nil
		f.Doc = nil
		used = false
		for _, im := range f.Imports {
			p, _ := strconv.Unquote(im.Path.Value)
			if shim, ok := shims[p]; ok {
				if im.Name == nil {
					im.Name = ast.NewIdent(defaultName[p])
				}
				im.Path.Value = strconv.Quote(shim)
				stats["import:"+p]++
			}
		}
		before := counter
		astutil.Apply(f, pre, nil)
		_ = before
		if used {
			astutil.AddNamedImport(fset, f, vsName, vsImport)
		}
		var buf bytes.Buffer
		for _, h := range header {
			buf.WriteString(h + "\n")
		}
		if len(header) > 0 {
			buf.WriteString("\n")
		}
		cfg := printer.Config{Mode: printer.UseSpaces | printer.TabIndent, Tabwidth: 8}
		if err := cfg.Fprint(&buf, fset, f); err != nil {
			fatal(err.Error())
		}
		dst := filepath.Join(*outDir, n)
		if err := os.WriteFile(dst, buf.Bytes(), 0o644); err != nil {
			fatal(err.Error())
		}
		abs, _ := filepath.Abs(src)
		replace[abs] = dst
	}
	if *overlay != "" {
		b, _ := json.MarshalIndent(map[string]any{"Replace": replace}, "", " ")
		if err := os.WriteFile(*overlay, b, 0o644); err != nil {
			fatal(err.Error())
		}
	}
	fmt.Fprintf(os.Stderr, "vsrewrite: %d files rewritten\n", len(names))
	os.WriteFile(filepath.Join(*outDir, "select_default_sites"), []byte(strconv.Itoa(selectDefaultSites)), 0o644)
}
