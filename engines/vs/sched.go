// Package vs is a cooperative "virtual scheduler": the product code's
// goroutines, channel operations, sync primitives, timers and contexts are
// routed here (by the syntactic rewriter vsrewrite plus the shim packages
// vsync/vtime/vcontext/vruntime/vsemaphore), exactly one thread runs at a
// time, and every scheduling decision is taken by an Explorer which
// enumerates them exhaustively (see explore.go).
//
// Architecture: one scheduler goroutine (the caller of Run) owns every
// decision.  A worker that reaches a scheduling point posts a *Req and parks;
// the scheduler computes the enabled set, asks the explorer, updates the
// trace fingerprint and resumes one worker, which then performs the effect of
// its own operation (natively for buffered channels, on the model for
// modelled objects).
package vs

import (
	"syscall"
	"fmt"
	"os"
	"runtime"
	"runtime/debug"
	"sort"
	"strings"
	"sync"
	"sync/atomic"
	"time"
)

// Native is the pass-through mode: every shim operation delegates to the real
// runtime primitive.  Used for the package's own tests on rewritten sources,
// the native half of the conformance suite, and free-running -race passes.
var Native = os.Getenv("VS_MODE") == "native"

type OpKind uint8

const (
	OpStart OpKind = iota
	OpYield
	OpSend
	OpRecv
	OpSelect
	OpClose
	OpLock
	OpUnlock
	OpRLock
	OpRUnlock
	OpWGAdd
	OpWGWait
	OpMap
	OpSemAcquire
	OpSemWait
	OpSemRelease
	OpTimerSet
	OpCancel
	OpCtxErr
	OpChoose
	OpWaitUntil
	OpSleep
	OpAtomic
	OpOnce
	OpCond
	OpTouch
)

var opNames = [...]string{"start", "yield", "send", "recv", "select", "close", "lock", "unlock", "rlock", "runlock",
	"wg.add", "wg.wait", "map", "sem.acquire", "sem.wait", "sem.release", "timer", "cancel", "ctx.err", "choose",
	"waituntil", "sleep", "atomic", "once", "cond", "touch"}

func (k OpKind) String() string { return opNames[k] }

// Obj is the identity of a synchronisation object for the trace
// fingerprint.  The zero value is usable; the id is assigned at first use
// from (first user's thread path, that thread's object counter), which is
// schedule independent whenever the first user is.
type Obj struct {
	id  uint64
	ver uint32
}

// Req is one pending operation of a thread.
type Req struct {
	Kind OpKind
	Obj  *Obj
	// Enabled is consulted by the scheduler; nil means always enabled.
	Enabled func() bool
	// Note is a short human-readable description (for deadlock reports).
	Note string
	// Holder (lock requests): the thread holding the lock now, nil if free.
	Holder func() *Thread
	// Fair marks a voluntary yield: the default choice is another thread.
	Fair bool

	// channel operations
	ch    chanOps
	val   any
	cases []Case
	deflt bool
	// results (written by the scheduler before resuming)
	arm       int
	partner   *Thread // rendezvous partner chosen by the scheduler
	completed bool    // op already performed by a rendezvous partner
	recvVal   any
	recvOK    bool
	// buffered channel full with parked senders: the receive pulls the first
	// parked sender's value into the buffer, as the Go runtime does
	pushFrom   *Thread
	sendNative func()
	// Choose
	N      int
	Result int
	// extra value mixed into the fingerprint
	Tag uint64
}

type Thread struct {
	ID     int    // creation index in this execution
	Path   string // schedule-independent identity: path of spawn indices
	Label  string // driver-supplied role (caller-A, shutdown, ...)
	gate   chan struct{}
	req    *Req
	done   bool
	nspawn int
	nobj   uint64
	chain  uint64
	// per-thread operation counters, readable by WaitUntil predicates
	Ops       [len(opNames)]int
	Sends     int // completed channel sends (plain or select arm)
	finished  chan struct{}
	pathHash  uint64
	Vars      map[string]any // driver-owned per-thread scratch
	Parent    *Thread
	SpawnStep int
	DoneStep  int
	parkSeq   int64
}

// ParkEvent records a thread arriving at a blocking select (no default arm).
type ParkEvent struct {
	Thread *Thread
	Step   int
	NCases int
}

// ChanEvent is one completed channel operation (for monitors).
type ChanEvent struct {
	Thread *Thread
	Send   bool
	Ch     uintptr
	Step   int
	Time   int64
}

// Point is one recorded choice.
type Point struct {
	N      int    // number of alternatives
	Chosen int    //
	Kind   byte   // 't' thread, 'a' select arm / partner, 'c' Choose, 'f' timer
	Cost1  bool   // alternatives > 0 cost one preemption
	Key    uint64 // state key before the choice (for pruning)
	Desc   string // only filled when tracing
}

// Outcome of one execution.
type Outcome struct {
	Points     []Point
	Steps      int
	Deadlock   string // non-empty: description of the deadlock state
	Panic      string // non-empty: product panic (value + stack)
	StepCap    bool
	StepCapMsg string // threads still alive when the step cap was hit
	Cut        bool // execution abandoned because the state was already expanded
	InvFail    string
	Trace      []string
	FinalKey   uint64
	Preempts   int
	TimerFires int
}

type timerRec struct {
	obj    Obj
	armed  bool
	when   int64
	fire   func(now int64) // effect run by the scheduler goroutine
	chain  uint64
	id     int
	period int64
}

// Sched is the state of one execution.
type Sched struct {
	threads []*Thread
	cur     *Thread
	back    chan struct{}
	// explorer interface
	prefix  []int
	out     *Outcome
	tracing bool
	// pruning
	visited   map[uint64]int8
	spent     int
	cutActive bool
	// time
	now        int64
	timers     []*timerRec
	FreeTimers bool // timers may fire at any scheduling point (<= MaxFires)
	MaxFires   int
	fires      int
	// limits
	MaxSteps int
	aborting bool
	abortMsg string
	// driver hooks
	Invariant func(s *Sched) string // evaluated with all workers parked
	NumCPU    int
	chans     map[uintptr]*chanInfo
	live      sync.WaitGroup
	steps     int64 // atomically readable by the watchdog
	envChain  uint64
	envParent *Thread
	ChanLog   []ChanEvent
	ParkLog   []ParkEvent
	atomics   map[uintptr]*Obj
	parkCounter int64
	Data      any // driver-owned
}

var current *Sched // the execution in progress (nil in native mode)

// Cur returns the execution in progress.
func Cur() *Sched { return current }

// Self returns the running thread (nil in native mode).
func Self() *Thread {
	if current == nil {
		return nil
	}
	return current.cur
}

func (s *Sched) Now() int64           { return s.now }
func (s *Sched) IsEnabled(t *Thread) bool { return s.enabled(t) }

// ParkedOnSend reports whether t is blocked on a channel send whose channel
// is full (a plain send or a select none of whose arms is ready).
func (s *Sched) ParkedOnSend(t *Thread) bool {
	r := t.req
	if t.done || r == nil || r.completed || s.enabled(t) {
		return false
	}
	switch r.Kind {
	case OpSend:
		return true
	case OpSelect:
		for _, c := range r.cases {
			if c.isSend() {
				return true
			}
		}
	}
	return false
}
func (s *Sched) Step() int            { return int(s.steps) }
func (s *Sched) Threads() []*Thread   { return s.threads }
func (s *Sched) Aborting() bool       { return s.aborting }

// Running is the thread whose code is executing (valid inside shim calls).
func (s *Sched) Running() *Thread { return s.cur }
func (t *Thread) Done() bool          { return t.done }
func (t *Thread) Pending() *Req       { return t.req }
func (t *Thread) PendingKind() OpKind { return t.req.Kind }

// ThreadByLabel finds a thread by its driver label.
func (s *Sched) ThreadByLabel(l string) *Thread {
	for _, t := range s.threads {
		if t.Label == l {
			return t
		}
	}
	return nil
}

const fnvOff = 14695981039346656037
const fnvPrime = 1099511628211

func mix(h uint64, vs ...uint64) uint64 {
	for _, v := range vs {
		for i := 0; i < 8; i++ {
			h ^= v & 0xff
			h *= fnvPrime
			v >>= 8
		}
	}
	return h
}

func hashString(s string) uint64 {
	h := uint64(fnvOff)
	for i := 0; i < len(s); i++ {
		h ^= uint64(s[i])
		h *= fnvPrime
	}
	return h
}

func (s *Sched) objID(o *Obj) uint64 {
	if o.id == 0 {
		t := s.cur
		t.nobj++
		o.id = mix(t.pathHash, t.nobj) | 1
	}
	return o.id
}

// spawn registers a new thread; it does not run until scheduled.
func (s *Sched) spawn(parent *Thread, label string, f func()) *Thread {
	t := &Thread{ID: len(s.threads), gate: make(chan struct{}, 1), finished: make(chan struct{}), Label: label, Parent: parent, SpawnStep: int(s.steps)}
	if parent == nil {
		t.Path = "0"
	} else {
		t.Path = fmt.Sprintf("%s.%d", parent.Path, parent.nspawn)
		parent.nspawn++
	}
	t.pathHash = hashString(t.Path)
	t.chain = t.pathHash
	t.req = &Req{Kind: OpStart}
	s.threads = append(s.threads, t)
	s.live.Add(1)
	go func() {
		defer s.live.Done()
		<-t.gate
		if s.aborting {
			t.done = true
			close(t.finished)
			return
		}
		defer func() {
			if r := recover(); r != nil && !s.aborting {
				if he, ok := r.(harnessError); ok {
					fmt.Fprintf(os.Stderr, "HARNESS-ERROR: %s\n%s\n", string(he), debug.Stack())
					os.Exit(2)
				}
				s.out.Panic = fmt.Sprintf("thread %s (%s): panic: %v\n%s", t.Path, t.Label, r, debug.Stack())
			}
			t.done = true
			t.DoneStep = int(s.steps)
			t.req = nil
			close(t.finished)
			if !s.aborting {
				s.back <- struct{}{}
			}
		}()
		f()
	}()
	return t
}

// nativeLive counts goroutines started by Go/GoLabel in pass-through mode that
// have not returned yet.
var nativeLive atomic.Int64

func goNative(f func()) {
	nativeLive.Add(1)
	go func() {
		defer nativeLive.Add(-1)
		f()
	}()
}

// WaitNative waits until every goroutine started in pass-through mode has
// returned, or until their number has not changed for `quiet` (those left are
// blocked for good). A process that alternates native and scheduled phases
// (vsconf) calls it before installing a scheduler: a native goroutine that
// reaches its first shim call after that would act as an unscheduled thread.
func WaitNative(quiet time.Duration) {
	last, since := nativeLive.Load(), time.Now()
	for last != 0 && time.Since(since) < quiet {
		time.Sleep(2 * time.Millisecond)
		runtime.Gosched()
		if n := nativeLive.Load(); n != last {
			last, since = n, time.Now()
		}
	}
}

// Go starts f as a new scheduled thread.
func Go(f func()) {
	if current == nil {
		goNative(f)
		return
	}
	s := current
	if s.aborting {
		return
	}
	s.spawn(s.cur, "", f)
}

// GoLabel is Go with a driver-supplied role label.
func GoLabel(label string, f func()) *Thread {
	if current == nil {
		goNative(f)
		return nil
	}
	s := current
	return s.spawn(s.cur, label, f)
}

// Point is a scheduling point: post the request, park, and return once the
// scheduler has chosen this thread with the request enabled.
func (s *Sched) Point(r *Req) {
	if s.aborting {
		// Unwinding: shim operations are no-ops.
		return
	}
	t := s.cur
	t.req = r
	if r.Kind == OpSelect && !r.deflt {
		s.ParkLog = append(s.ParkLog, ParkEvent{Thread: t, Step: int(s.steps), NCases: len(r.cases)})
	}
	s.parkCounter++
	t.parkSeq = s.parkCounter
	s.back <- struct{}{}
	<-t.gate
	if s.aborting {
		runtime.Goexit()
	}
	t.Ops[r.Kind]++
}

func (s *Sched) enabled(t *Thread) bool {
	r := t.req
	if t.done || r == nil {
		return false
	}
	if r.completed {
		return true
	}
	switch r.Kind {
	case OpSend:
		return s.sendReady(t, r.ch)
	case OpRecv:
		return s.recvReady(t, r.ch)
	case OpSelect:
		if r.deflt {
			return true
		}
		for _, c := range r.cases {
			if s.caseReady(t, c) {
				return true
			}
		}
		return false
	case OpSleep:
		return s.now >= int64(r.Tag)
	}
	if r.Enabled != nil {
		return r.Enabled()
	}
	return true
}

func (s *Sched) describe(t *Thread) string {
	if t.done {
		return fmt.Sprintf("%s[%s] done", t.Path, t.Label)
	}
	r := t.req
	if r == nil {
		return fmt.Sprintf("%s[%s] running", t.Path, t.Label)
	}
	d := r.Kind.String()
	if r.Note != "" {
		d += " " + r.Note
	}
	if r.Kind == OpSelect {
		var parts []string
		for _, c := range r.cases {
			parts = append(parts, c.describe())
		}
		d += "{" + strings.Join(parts, ",") + "}"
	} else if r.ch != nil {
		d += " " + r.ch.describe()
	}
	return fmt.Sprintf("%s[%s] %s", t.Path, t.Label, d)
}

// choose asks the explorer for one of n alternatives.
func (s *Sched) choose(n int, kind byte, cost1 bool, key uint64, desc func() string) int {
	idx := len(s.out.Points)
	c := 0
	if idx < len(s.prefix) {
		c = s.prefix[idx]
		if c >= n {
			panic(harnessError(fmt.Sprintf("replay divergence: choice %d of %d at point %d (kind %c)", c, n, idx, kind)))
		}
	}
	p := Point{N: n, Chosen: c, Kind: kind, Cost1: cost1, Key: key}
	if s.tracing && desc != nil {
		p.Desc = desc()
	}
	if cost1 && c > 0 {
		s.spent++
	}
	s.out.Points = append(s.out.Points, p)
	return c
}

type harnessError string

// stateKey is the fingerprint of the Mazurkiewicz trace executed so far.
func (s *Sched) stateKey() uint64 {
	var sum uint64
	for _, t := range s.threads {
		sum += mix(fnvOff, t.pathHash, t.chain)
	}
	for _, tm := range s.timers {
		sum += mix(fnvOff, uint64(tm.id)+7777, tm.chain)
	}
	return mix(sum, s.envChain, uint64(s.now), uint64(s.fires))
}

func (s *Sched) record(t *Thread, r *Req) {
	// update per-thread chain with (object, version, kind, result)
	switch r.Kind {
	case OpSelect:
		if r.arm < 0 {
			for _, c := range r.cases {
				if ci := c.info(s); ci != nil {
					t.chain = mix(t.chain, s.objIDFor(t, &ci.obj), uint64(ci.obj.ver), uint64(OpSelect), 0xdef)
					ci.obj.ver++
				}
			}
			t.chain = mix(t.chain, 0xdefa)
		} else {
			ci := r.cases[r.arm].info(s)
			t.chain = mix(t.chain, s.objIDFor(t, &ci.obj), uint64(ci.obj.ver), uint64(OpSelect), uint64(r.arm))
			ci.obj.ver++
		}
	case OpSend, OpRecv, OpClose:
		ci := r.ch.info(s)
		if ci != nil {
			t.chain = mix(t.chain, s.objIDFor(t, &ci.obj), uint64(ci.obj.ver), uint64(r.Kind))
			ci.obj.ver++
		} else {
			t.chain = mix(t.chain, uint64(r.Kind), 0x0)
		}
	default:
		if r.Obj != nil {
			t.chain = mix(t.chain, s.objIDFor(t, r.Obj), uint64(r.Obj.ver), uint64(r.Kind), r.Tag)
			r.Obj.ver++
		} else {
			t.chain = mix(t.chain, uint64(r.Kind), r.Tag)
		}
	}
}

func (s *Sched) objIDFor(t *Thread, o *Obj) uint64 {
	if o.id == 0 {
		t.nobj++
		o.id = mix(t.pathHash, t.nobj) | 1
	}
	return o.id
}

// Config of one execution.
type Config struct {
	FreeTimers bool
	MaxFires   int
	MaxSteps   int
	NumCPU     int
	Invariant  func(s *Sched) string
	Trace      bool
}

var watchdogOnce sync.Once
var wdSteps atomic.Int64
var wdActive atomic.Bool
var wdInfo atomic.Value

// Runaway describes a product thread that consumes CPU (or memory) without
// ever reaching a scheduling point: an unbounded loop in the code under test.
type Runaway struct {
	Thread     string  `json:"thread"`
	Choices    []int   `json:"choices"`
	CPUSeconds float64 `json:"cpu_seconds"`
	MemMB      uint64  `json:"mem_mb"`
}

// OnRunaway, when set, receives the runaway report (the process cannot
// continue: the handler must exit). Without a handler a runaway is a harness error.
var OnRunaway func(r Runaway)

func procCPU() float64 {
	var ru syscall.Rusage
	if syscall.Getrusage(syscall.RUSAGE_SELF, &ru) != nil {
		return 0
	}
	return float64(ru.Utime.Sec+ru.Stime.Sec) + float64(ru.Utime.Usec+ru.Stime.Usec)/1e6
}

// RunawayCPUSeconds is the CPU time one thread may consume between two
// scheduling points before it is declared a runaway (real steps take micro- to
// milliseconds; CPU time, unlike wall time, does not depend on machine load).
var RunawayCPUSeconds = 30.0

func startWatchdog() {
	watchdogOnce.Do(func() {
		go func() {
			last := int64(-1)
			stuck := 0
			cpuAtChange := procCPU()
			runaway := func(cpu float64, mem uint64) {
				r := Runaway{Thread: fmt.Sprint(wdInfo.Load()), CPUSeconds: cpu, MemMB: mem}
				if c := current; c != nil && c.out != nil {
					// the scheduler goroutine is parked (no step is being taken), so Points is stable
					for _, p := range c.out.Points {
						r.Choices = append(r.Choices, p.Chosen)
					}
					if c.cur != nil {
						r.Thread = c.cur.Label + " " + c.cur.Path
					}
				}
				if OnRunaway != nil {
					OnRunaway(r)
				}
				fmt.Fprintf(os.Stderr, "HARNESS-ERROR: watchdog: thread %s used %.0f CPU-seconds / %d MB without reaching a scheduling point\n", r.Thread, cpu, mem)
				os.Exit(2)
			}
			for {
				time.Sleep(2 * time.Second)
				if !wdActive.Load() {
					stuck = 0
					last = -1
					continue
				}
				var ms runtime.MemStats
				runtime.ReadMemStats(&ms)
				n := wdSteps.Load()
				if n != last {
					stuck = 0
					last = n
					cpuAtChange = procCPU()
					if ms.Sys > 12<<30 {
						fmt.Fprintf(os.Stderr, "HARNESS-ERROR: memory guard: this worker uses %d MB (heap in use %d MB, stacks %d MB, goroutines %d)\n", ms.Sys>>20, ms.HeapInuse>>20, ms.StackInuse>>20, runtime.NumGoroutine())
						os.Exit(2)
					}
					continue
				}
				stuck++
				cpu := procCPU() - cpuAtChange
				if cpu >= RunawayCPUSeconds || (ms.Sys > 12<<30 && cpu >= 1.5) {
					runaway(cpu, ms.Sys>>20)
				}
				if (stuck >= 20 && cpu < 2) || stuck >= 300 {
					fmt.Fprintf(os.Stderr, "HARNESS-ERROR: watchdog: no scheduling step for %ds and no CPU use (unmodelled blocking call?) %v\n", 2*stuck, wdInfo.Load())
					buf := make([]byte, 1<<20)
					n := runtime.Stack(buf, true)
					os.Stderr.Write(buf[:n])
					os.Exit(2)
				}
				if ms.Sys > 14<<30 {
					fmt.Fprintf(os.Stderr, "HARNESS-ERROR: memory guard: this worker uses %d MB\n", ms.Sys>>20)
					os.Exit(2)
				}
			}
		}()
	})
}

// Run executes main under the scheduler, following prefix and then default
// choices.  visited (may be nil) is the pruning table shared across runs.
func Run(cfg Config, prefix []int, visited map[uint64]int8, main func()) (out *Outcome) {
	startWatchdog()
	s := &Sched{
		back: make(chan struct{}), prefix: prefix, out: &Outcome{}, visited: visited,
		FreeTimers: cfg.FreeTimers, MaxFires: cfg.MaxFires, MaxSteps: cfg.MaxSteps, NumCPU: cfg.NumCPU,
		Invariant: cfg.Invariant, tracing: cfg.Trace, chans: map[uintptr]*chanInfo{},
	}
	if s.MaxSteps == 0 {
		s.MaxSteps = 20000
	}
	if s.NumCPU == 0 {
		s.NumCPU = 1
	}
	out = s.out
	current = s
	wdActive.Store(true)
	defer func() {
		wdActive.Store(false)
		if r := recover(); r != nil {
			if he, ok := r.(harnessError); ok {
				s.abort()
				current = nil
				fmt.Fprintf(os.Stderr, "HARNESS-ERROR: %s\n", string(he))
				os.Exit(2)
			}
			panic(r)
		}
		current = nil
	}()
	s.spawn(nil, "main", main)
	s.loop()
	s.abort()
	out.Steps = int(s.steps)
	out.FinalKey = s.stateKey()
	out.Preempts = s.spent
	out.TimerFires = s.fires
	return out
}

// abort unwinds every thread that is still parked, one at a time.
func (s *Sched) abort() {
	s.aborting = true
	for i := 0; i < len(s.threads); i++ { // threads may be appended while unwinding? (Go is a no-op then)
		t := s.threads[i]
		if t.done {
			continue
		}
		t.gate <- struct{}{}
		<-t.finished
	}
	s.live.Wait()
}

type alt struct {
	t  *Thread
	tm *timerRec
}

func (s *Sched) loop() {
	var alts []alt
	for {
		s.steps++
		wdSteps.Add(1)
		if s.tracing && s.steps > 3000 {
			// a run this long is a livelock being confirmed: its first 3000 steps describe it
			s.tracing = false
			s.out.Trace = append(s.out.Trace, "... (trace stops after 3000 steps)")
		}
		if int(s.steps) > s.MaxSteps {
			s.out.StepCap = true
			var parts []string
			for _, t := range s.threads {
				if !t.done {
					parts = append(parts, s.describe(t))
				}
			}
			if len(parts) > 12 {
				parts = append(parts[:12], fmt.Sprintf("... and %d more threads", len(parts)-12))
			}
			s.out.StepCapMsg = strings.Join(parts, " | ")
			return
		}
		if s.out.Panic != "" {
			return
		}
		if s.Invariant != nil {
			if msg := s.Invariant(s); msg != "" {
				s.out.InvFail = msg
				return
			}
		}
		alts = alts[:0]
		// canonical order: running thread first if still enabled, then by creation index
		curEnabled := false
		if s.cur != nil && !s.cur.done && s.enabled(s.cur) {
			curEnabled = true
			if !s.cur.req.Fair {
				alts = append(alts, alt{t: s.cur})
			}
		}
		for _, t := range s.threads {
			if t == s.cur || t.done {
				continue
			}
			if s.enabled(t) {
				alts = append(alts, alt{t: t})
			}
		}
		if curEnabled && s.cur.req.Fair {
			// voluntary yield: the yielding thread goes last
			alts = append(alts, alt{t: s.cur})
			curEnabled = false // switching away is free
		}
		nThreads := len(alts)
		if nThreads == 0 {
			// quiescent: advance virtual time to the next timer / sleeper
			if s.advanceTime() {
				continue
			}
			alive := false
			for _, t := range s.threads {
				if !t.done {
					alive = true
				}
			}
			if alive {
				var parts []string
				for _, t := range s.threads {
					if !t.done {
						parts = append(parts, s.describe(t))
					}
				}
				s.out.Deadlock = strings.Join(parts, " | ")
			}
			return
		}
		if s.FreeTimers && s.fires < s.MaxFires {
			for _, tm := range s.timers {
				if tm.armed {
					alts = append(alts, alt{tm: tm})
				}
			}
		}
		var pick alt
		if len(alts) == 1 {
			pick = alts[0]
		} else {
			key := mix(s.stateKey(), uint64(curID(s.cur)), 't')
			if s.cutHere(key) {
				s.out.Cut = true
				return
			}
			c := s.choose(len(alts), 't', curEnabled, key, func() string {
				var parts []string
				for _, a := range alts {
					if a.t != nil {
						parts = append(parts, s.describe(a.t))
					} else {
						parts = append(parts, fmt.Sprintf("fire timer#%d", a.tm.id))
					}
				}
				return strings.Join(parts, " || ")
			})
			pick = alts[c]
		}
		if pick.tm != nil {
			s.fireTimer(pick.tm, false)
			continue
		}
		t := pick.t
		r := t.req
		if !r.completed {
			if !s.resolve(t, r) {
				return // cut inside an arm choice
			}
			s.record(t, r)
		}
		if s.tracing {
			s.out.Trace = append(s.out.Trace, fmt.Sprintf("t=%d %s", s.now, s.describe(t)))
		}
		s.cur = t
		wdInfo.Store(t.Path)
		t.gate <- struct{}{}
		<-s.back
	}
}

func curID(t *Thread) int {
	if t == nil {
		return -1
	}
	return t.ID
}

// cutHere implements trace-fingerprint pruning: a state already expanded with
// no more preemptions spent needs no second expansion.
func (s *Sched) cutHere(key uint64) bool {
	if s.visited == nil {
		return false
	}
	if len(s.out.Points) < len(s.prefix) {
		return false // still replaying
	}
	if v, ok := s.visited[key]; ok && int(v) <= s.spent {
		return true
	}
	s.visited[key] = int8(s.spent)
	return false
}

// resolve fixes the nondeterminism inside the chosen operation (select arm,
// rendezvous partner, Choose result) and applies rendezvous effects.
func (s *Sched) resolve(t *Thread, r *Req) bool {
	switch r.Kind {
	case OpChoose:
		key := mix(s.stateKey(), uint64(t.ID), 'c')
		if s.cutHere(key) {
			s.out.Cut = true
			return false
		}
		r.Result = s.choose(r.N, 'c', false, key, func() string { return fmt.Sprintf("%s choose(%d) %s", t.Path, r.N, r.Note) })
		r.Tag = uint64(r.Result) + 1
	case OpSend, OpRecv, OpSelect:
		return s.resolveChan(t, r)
	}
	return true
}

func (s *Sched) advanceTime() bool {
	next := int64(-1)
	for _, tm := range s.timers {
		if tm.armed && (next < 0 || tm.when < next) {
			next = tm.when
		}
	}
	for _, t := range s.threads {
		if !t.done && t.req != nil && t.req.Kind == OpSleep && !t.req.completed {
			w := int64(t.req.Tag)
			if next < 0 || w < next {
				next = w
			}
		}
	}
	if next < 0 {
		return false
	}
	if next > s.now {
		s.now = next
	}
	// fire every timer due now, lowest id first (deterministic; the order is
	// not observable because no thread runs in between)
	var due []*timerRec
	for _, tm := range s.timers {
		if tm.armed && tm.when <= s.now {
			due = append(due, tm)
		}
	}
	sort.Slice(due, func(i, j int) bool { return due[i].id < due[j].id })
	for _, tm := range due {
		s.fireTimer(tm, true)
	}
	return true
}

func (s *Sched) fireTimer(tm *timerRec, forced bool) {
	if !forced {
		s.fires++
		if tm.when > s.now {
			s.now = tm.when
		}
	}
	tm.armed = false
	tm.chain = mix(tm.chain, uint64(tm.obj.ver), 'f')
	tm.obj.ver++
	if s.tracing {
		s.out.Trace = append(s.out.Trace, fmt.Sprintf("t=%d fire timer#%d forced=%v", s.now, tm.id, forced))
	}
	tm.fire(s.now)
	if tm.period > 0 {
		tm.armed = true
		tm.when = s.now + tm.period
	}
}

// ---- driver-level helpers -------------------------------------------------

// Yield is a plain scheduling point.
func Yield(note string) {
	if current == nil {
		runtime.Gosched()
		return
	}
	current.Point(&Req{Kind: OpYield, Note: note})
}

// Gosched is a voluntary yield: the default continuation runs another thread.
func Gosched() {
	if current == nil {
		runtime.Gosched()
		return
	}
	current.Point(&Req{Kind: OpYield, Fair: true, Note: "gosched"})
}

// Touch is a scheduling point that orders the caller against every other
// toucher of o in the trace fingerprint (used for shared driver logs).
func Touch(o *Obj, note string) {
	if current == nil {
		return
	}
	current.Point(&Req{Kind: OpTouch, Obj: o, Note: note})
}

var nativeRand atomic.Uint64

// Choose returns an environment answer in [0,n); every value is explored.
func Choose(n int, note string) int {
	if current == nil {
		x := nativeRand.Add(0x9E3779B97F4A7C15)
		x ^= x >> 31
		return int(x % uint64(n))
	}
	if current.aborting {
		return 0
	}
	r := &Req{Kind: OpChoose, N: n, Note: note}
	current.Point(r)
	return r.Result
}

// WaitUntil parks the caller until pred (a function of scheduler-owned
// state such as other threads' operation counters) holds.
func WaitUntil(note string, pred func() bool) {
	if current == nil {
		for !pred() {
			time.Sleep(50 * time.Microsecond)
		}
		return
	}
	current.Point(&Req{Kind: OpWaitUntil, Enabled: pred, Note: note})
}

// NumCPU is the driver-controlled value of runtime.NumCPU.
func NumCPU() int {
	if current == nil {
		if v := nativeNumCPU.Load(); v > 0 {
			return int(v)
		}
		return runtime.NumCPU()
	}
	return current.NumCPU
}

var nativeNumCPU atomic.Int64

func SetNativeNumCPU(n int) { nativeNumCPU.Store(int64(n)) }

// HarnessFail reports a bug in the harness itself (never a VIOLATION).
func HarnessFail(format string, args ...any) {
	panic(harnessError(fmt.Sprintf(format, args...)))
}

// ObjAt returns the fingerprint object of an atomic variable at addr.
func (s *Sched) ObjAt(addr uintptr) *Obj {
	if s.atomics == nil {
		s.atomics = map[uintptr]*Obj{}
	}
	o := s.atomics[addr]
	if o == nil {
		o = &Obj{}
		s.atomics[addr] = o
	}
	return o
}

// ---- timers (used by the vtime shim) ---------------------------------------

// TimerHandle is the scheduler-side record of a virtual timer.
type TimerHandle struct{ rec *timerRec }

// NewTimerRec registers a virtual timer; fire runs on the scheduler goroutine
// when the timer expires and must not block.
func (s *Sched) NewTimerRec(fire func(now int64)) *TimerHandle {
	tm := &timerRec{fire: fire, id: len(s.timers)}
	s.timers = append(s.timers, tm)
	return &TimerHandle{rec: tm}
}

func (h *TimerHandle) Obj() *Obj         { return &h.rec.obj }
func (h *TimerHandle) Armed() bool       { return h.rec.armed }
func (h *TimerHandle) Arm(when int64)    { h.rec.armed = true; h.rec.when = when }
func (h *TimerHandle) Disarm()           { h.rec.armed = false }
func (h *TimerHandle) SetPeriod(p int64) { h.rec.period = p }

// SleepUntil parks the caller until virtual time reaches t.
func (s *Sched) SleepUntil(t int64) {
	if s.aborting {
		return
	}
	s.Point(&Req{Kind: OpSleep, Tag: uint64(t), Note: "sleep"})
}

// GoFromScheduler spawns a thread from a timer effect (scheduler goroutine).
func GoFromScheduler(f func()) {
	s := current
	if s == nil || s.aborting {
		return
	}
	// parent is the environment: use a dedicated pseudo-parent path
	if s.envParent == nil {
		s.envParent = &Thread{Path: "env"}
	}
	s.spawn(s.envParent, "afterfunc", f)
}
