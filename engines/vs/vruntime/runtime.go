// Package vruntime is the shim for package runtime.
package vruntime

import (
	"runtime"

	"github.com/open-telemetry/otel-arrow/collector/processor/concurrentbatchprocessor/zzverif/vs"
)

type (
	Frame    = runtime.Frame
	Frames   = runtime.Frames
	Func     = runtime.Func
	MemStats = runtime.MemStats
	Error    = runtime.Error
)

const (
	GOOS   = runtime.GOOS
	GOARCH = runtime.GOARCH
)

var (
	Caller         = runtime.Caller
	Callers        = runtime.Callers
	CallersFrames  = runtime.CallersFrames
	FuncForPC      = runtime.FuncForPC
	Stack          = runtime.Stack
	GC             = runtime.GC
	ReadMemStats   = runtime.ReadMemStats
	NumGoroutine   = runtime.NumGoroutine
	KeepAlive      = runtime.KeepAlive
	SetFinalizer   = runtime.SetFinalizer
	Version        = runtime.Version
	Goexit         = runtime.Goexit
	LockOSThread   = runtime.LockOSThread
	UnlockOSThread = runtime.UnlockOSThread
)

func NumCPU() int { return vs.NumCPU() }

func GOMAXPROCS(n int) int {
	if vs.Cur() == nil {
		return runtime.GOMAXPROCS(n)
	}
	return vs.NumCPU()
}

func Gosched() { vs.Gosched() }
