package vs

import (
	"fmt"
	"reflect"
)

// chanInfo is the scheduler's side table entry for one real channel.
type chanInfo struct {
	obj    Obj
	seq    int
	closed bool
	keep   reflect.Value // keeps the channel alive so its address is not reused
}

// cref is an untyped handle on a real channel.
type cref struct {
	v   reflect.Value
	p   uintptr
	cap int
	ci  *chanInfo
}

type chanOps = *cref

func newCref(ch any) *cref {
	v := reflect.ValueOf(ch)
	if v.IsNil() {
		return &cref{}
	}
	return &cref{v: v, p: v.Pointer(), cap: v.Cap()}
}

func (c *cref) isNil() bool { return c.p == 0 }

func (c *cref) info(s *Sched) *chanInfo {
	if c.p == 0 {
		return nil
	}
	if c.ci == nil {
		ci := s.chans[c.p]
		if ci == nil {
			ci = &chanInfo{keep: c.v, seq: len(s.chans)}
			s.chans[c.p] = ci
		}
		c.ci = ci
	}
	return c.ci
}

func (c *cref) describe() string {
	if c.p == 0 {
		return "chan(nil)"
	}
	cl := ""
	if c.ci != nil && c.ci.closed {
		cl = ",closed"
	}
	id := "?"
	if s := current; s != nil {
		id = fmt.Sprint(c.info(s).seq)
	}
	return fmt.Sprintf("chan#%s(%d/%d%s)", id, c.v.Len(), c.cap, cl)
}

// probeClosed detects a channel that was closed natively (not through
// vs.Close).  Only called when the channel is empty.
func (c *cref) probeClosed() bool {
	if c.v.Type().ChanDir()&reflect.RecvDir == 0 {
		return false
	}
	x, ok := c.v.TryRecv()
	if ok {
		panic(harnessError("probeClosed consumed a value: a goroutine outside the scheduler sent on " + c.describe()))
	}
	// "would block" yields the zero Value, "closed" a valid zero element.
	return x.IsValid()
}

func (s *Sched) partnersRecv(t *Thread, c *cref) []*Thread { // receivers parked on c
	var out []*Thread
	for _, u := range s.threads {
		if u == t || u.done || u.req == nil || u.req.completed {
			continue
		}
		switch u.req.Kind {
		case OpRecv:
			if u.req.ch.p == c.p {
				out = append(out, u)
			}
		case OpSelect:
			for _, cs := range u.req.cases {
				if !cs.isSend() && cs.cref().p == c.p {
					out = append(out, u)
					break
				}
			}
		}
	}
	return out
}

func (s *Sched) partnersSend(t *Thread, c *cref) []*Thread { // senders parked on c
	var out []*Thread
	for _, u := range s.threads {
		if u == t || u.done || u.req == nil || u.req.completed {
			continue
		}
		switch u.req.Kind {
		case OpSend:
			if u.req.ch.p == c.p {
				out = append(out, u)
			}
		case OpSelect:
			for _, cs := range u.req.cases {
				if cs.isSend() && cs.cref().p == c.p {
					out = append(out, u)
					break
				}
			}
		}
	}
	return out
}

func (s *Sched) sendReady(t *Thread, c *cref) bool {
	if c.p == 0 {
		return false
	}
	ci := c.info(s)
	if ci.closed {
		return true // the send will panic, as in Go
	}
	if c.cap > 0 {
		return c.v.Len() < c.cap
	}
	return len(s.partnersRecv(t, c)) > 0
}

func (s *Sched) recvReady(t *Thread, c *cref) bool {
	if c.p == 0 {
		return false
	}
	if c.cap > 0 && c.v.Len() > 0 {
		return true
	}
	ci := c.info(s)
	if ci.closed {
		return true
	}
	if c.cap == 0 && len(s.partnersSend(t, c)) > 0 {
		return true
	}
	if c.probeClosed() {
		ci.closed = true
		return true
	}
	return false
}

func (s *Sched) caseReady(t *Thread, cs Case) bool {
	if cs.isSend() {
		return s.sendReady(t, cs.cref())
	}
	return s.recvReady(t, cs.cref())
}

type chanOption struct {
	arm     int
	partner *Thread
}

// resolveChan picks the arm and (for unbuffered channels) the rendezvous
// partner of the chosen channel operation and applies rendezvous effects.
func (s *Sched) resolveChan(t *Thread, r *Req) bool {
	var opts []chanOption
	add := func(arm int, send bool, c *cref) {
		if c.p == 0 {
			return
		}
		ci := c.info(s)
		if send {
			if ci.closed || c.cap > 0 {
				if ci.closed || c.v.Len() < c.cap {
					opts = append(opts, chanOption{arm: arm})
				}
				return
			}
			for _, u := range s.partnersRecv(t, c) {
				opts = append(opts, chanOption{arm: arm, partner: u})
			}
			return
		}
		if (c.cap > 0 && c.v.Len() > 0) || ci.closed {
			opts = append(opts, chanOption{arm: arm})
			return
		}
		if c.cap == 0 {
			for _, u := range s.partnersSend(t, c) {
				opts = append(opts, chanOption{arm: arm, partner: u})
			}
		}
	}
	switch r.Kind {
	case OpSend:
		add(0, true, r.ch)
	case OpRecv:
		add(0, false, r.ch)
	case OpSelect:
		for i, cs := range r.cases {
			add(i, cs.isSend(), cs.cref())
		}
	}
	if len(opts) == 0 {
		if r.Kind == OpSelect && r.deflt {
			r.arm = -1
			return true
		}
		panic(harnessError("resolveChan: operation chosen but no option ready: " + s.describe(t)))
	}
	pick := 0
	if len(opts) > 1 {
		key := mix(s.stateKey(), uint64(t.ID), 'a')
		if s.cutHere(key) {
			s.out.Cut = true
			return false
		}
		pick = s.choose(len(opts), 'a', false, key, func() string {
			return fmt.Sprintf("%s arm/partner choice among %d", s.describe(t), len(opts))
		})
	}
	o := opts[pick]
	r.arm = o.arm
	isSend := r.Kind == OpSend || (r.Kind == OpSelect && r.cases[o.arm].isSend())
	if isSend {
		t.Sends++
	}
	{
		c := r.ch
		if r.Kind == OpSelect {
			c = r.cases[o.arm].cref()
		}
		s.ChanLog = append(s.ChanLog, ChanEvent{Thread: t, Send: isSend, Ch: c.p, Step: int(s.steps), Time: s.now})
		if o.partner != nil {
			s.ChanLog = append(s.ChanLog, ChanEvent{Thread: o.partner, Send: !isSend, Ch: c.p, Step: int(s.steps), Time: s.now})
		}
	}
	if !isSend && o.partner == nil {
		c := r.ch
		if r.Kind == OpSelect {
			c = r.cases[o.arm].cref()
		}
		if c.cap > 0 && c.v.Len() == c.cap {
			// full buffered channel: the receive also admits the first parked sender
			var first *Thread
			for _, u := range s.partnersSend(t, c) {
				if first == nil || u.parkSeq < first.parkSeq {
					first = u
				}
			}
			if first != nil {
				ur := first.req
				if ur.Kind == OpSelect {
					for i, cs := range ur.cases {
						if cs.isSend() && cs.cref().p == c.p {
							ur.arm = i
							break
						}
					}
				}
				ur.completed = true
				r.pushFrom = first
				first.Sends++
				s.record(first, ur)
				first.Ops[ur.Kind]++
				s.ChanLog = append(s.ChanLog, ChanEvent{Thread: first, Send: true, Ch: c.p, Step: int(s.steps), Time: s.now})
			}
		}
	}
	if o.partner != nil {
		u := o.partner
		r.partner = u
		ur := u.req
		// which arm of the partner?
		if ur.Kind == OpSelect {
			c := r.ch
			if r.Kind == OpSelect {
				c = r.cases[o.arm].cref()
			}
			for i, cs := range ur.cases {
				if cs.isSend() != isSend && cs.cref().p == c.p {
					ur.arm = i
					break
				}
			}
		}
		if isSend {
			// t sends, u receives
			var v any
			if r.Kind == OpSelect {
				v = r.cases[o.arm].sendVal()
			} else {
				v = r.val
			}
			ur.recvVal, ur.recvOK = v, true
		} else {
			var v any
			if ur.Kind == OpSelect {
				v = ur.cases[ur.arm].sendVal()
			} else {
				v = ur.val
			}
			r.recvVal, r.recvOK = v, true
			u.Sends++
		}
		ur.completed = true
		s.record(u, ur)
		u.Ops[ur.Kind]++
	}
	return true
}

// ---------------------------------------------------------------------------
// typed front end used by rewritten product code

// Sender wraps the send direction of a channel; the element type is fixed by
// the channel alone, so the value is assigned with ordinary assignability.
type Sender[T any] struct{ ch chan<- T }

func S[T any](ch chan<- T) Sender[T] { return Sender[T]{ch} }

func (sd Sender[T]) Send(v T) {
	s := current
	if s == nil {
		sd.ch <- v
		return
	}
	if s.aborting {
		return
	}
	r := &Req{Kind: OpSend, ch: newCref(sd.ch)}
	if r.ch.cap == 0 {
		r.val = v
	} else {
		r.sendNative = func() { sd.ch <- v }
	}
	s.Point(r)
	if r.partner != nil || r.completed {
		return
	}
	sd.ch <- v // buffered and not full (or closed: panics as Go does)
}

func Recv[T any](ch <-chan T) T {
	v, _ := Recv2(ch)
	return v
}

func Recv2[T any](ch <-chan T) (T, bool) {
	s := current
	if s == nil {
		v, ok := <-ch
		return v, ok
	}
	var zero T
	if s.aborting {
		return zero, false
	}
	r := &Req{Kind: OpRecv, ch: newCref(ch)}
	s.Point(r)
	if r.partner != nil || r.completed {
		if r.recvVal == nil {
			return zero, r.recvOK
		}
		return r.recvVal.(T), r.recvOK
	}
	v, ok := <-ch
	pushParked(r)
	return v, ok
}

// pushParked performs, on the receiver's goroutine, the native send of the
// parked sender that this receive admitted into the buffer.
func pushParked(r *Req) {
	if r.pushFrom == nil {
		return
	}
	ur := r.pushFrom.req
	if ur.Kind == OpSelect {
		ur.cases[ur.arm].execNative()
	} else if ur.sendNative != nil {
		ur.sendNative()
	}
	r.pushFrom = nil
}

func Close[T any](ch chan<- T) {
	s := current
	if s == nil {
		close(ch)
		return
	}
	if s.aborting {
		return
	}
	r := &Req{Kind: OpClose, ch: newCref(ch)}
	s.Point(r)
	close(ch)
	if ci := r.ch.info(s); ci != nil {
		ci.closed = true
	}
}

// MarkClosed tells the scheduler that ch was closed by shim code.
func MarkClosed(ch any) {
	if s := current; s != nil {
		c := newCref(ch)
		if ci := c.info(s); ci != nil {
			ci.closed = true
		}
	}
}

// Case is one arm of a rewritten select statement.
type Case interface {
	cref() *cref
	isSend() bool
	sendVal() any
	execNative()
	setRecv(v any, ok bool)
	info(s *Sched) *chanInfo
	describe() string
	reflectCase() reflect.SelectCase
	setRecvReflect(v reflect.Value, ok bool)
}

type RCase[T any] struct {
	ch <-chan T
	c  *cref
	v  T
	ok bool
}

func RecvCase[T any](ch <-chan T) *RCase[T] { return &RCase[T]{ch: ch} }

func (c *RCase[T]) Value() T          { return c.v }
func (c *RCase[T]) Value2() (T, bool) { return c.v, c.ok }
func (c *RCase[T]) cref() *cref {
	if c.c == nil {
		c.c = newCref(c.ch)
	}
	return c.c
}
func (c *RCase[T]) isSend() bool            { return false }
func (c *RCase[T]) sendVal() any            { return nil }
func (c *RCase[T]) execNative()             { c.v, c.ok = <-c.ch }
func (c *RCase[T]) info(s *Sched) *chanInfo { return c.cref().info(s) }
func (c *RCase[T]) describe() string        { return "<-" + c.cref().describe() }
func (c *RCase[T]) setRecv(v any, ok bool) {
	if v != nil {
		c.v = v.(T)
	}
	c.ok = ok
}
func (c *RCase[T]) reflectCase() reflect.SelectCase {
	return reflect.SelectCase{Dir: reflect.SelectRecv, Chan: reflect.ValueOf(c.ch)}
}
func (c *RCase[T]) setRecvReflect(v reflect.Value, ok bool) {
	c.ok = ok
	if ok {
		c.v = v.Interface().(T)
	}
}

type SCase[T any] struct {
	ch chan<- T
	c  *cref
	v  T
}

func (sd Sender[T]) Case(v T) *SCase[T] { return &SCase[T]{ch: sd.ch, v: v} }

func (c *SCase[T]) cref() *cref {
	if c.c == nil {
		c.c = newCref(c.ch)
	}
	return c.c
}
func (c *SCase[T]) isSend() bool            { return true }
func (c *SCase[T]) sendVal() any            { return c.v }
func (c *SCase[T]) execNative()             { c.ch <- c.v }
func (c *SCase[T]) info(s *Sched) *chanInfo { return c.cref().info(s) }
func (c *SCase[T]) describe() string        { return c.cref().describe() + "<-" }
func (c *SCase[T]) setRecv(any, bool)       {}
func (c *SCase[T]) reflectCase() reflect.SelectCase {
	return reflect.SelectCase{Dir: reflect.SelectSend, Chan: reflect.ValueOf(c.ch), Send: reflect.ValueOf(&c.v).Elem()}
}
func (c *SCase[T]) setRecvReflect(reflect.Value, bool) {}

// Select performs a select over cases; it returns the index of the arm taken,
// or -1 for the default arm.
func Select(hasDefault bool, cases ...Case) int {
	s := current
	if s == nil {
		rc := make([]reflect.SelectCase, 0, len(cases)+1)
		for _, c := range cases {
			rc = append(rc, c.reflectCase())
		}
		if hasDefault {
			rc = append(rc, reflect.SelectCase{Dir: reflect.SelectDefault})
		}
		i, v, ok := reflect.Select(rc)
		if i == len(cases) {
			return -1
		}
		cases[i].setRecvReflect(v, ok)
		return i
	}
	if s.aborting {
		if hasDefault {
			return -1
		}
		// unwinding through a deferred select: pretend nothing happened; there
		// is no meaningful arm, so leave through Goexit semantics of the caller
		return -1
	}
	r := &Req{Kind: OpSelect, cases: cases, deflt: hasDefault}
	s.Point(r)
	if r.arm < 0 {
		return -1
	}
	c := cases[r.arm]
	if r.partner != nil || r.completed {
		if !c.isSend() {
			c.setRecv(r.recvVal, r.recvOK)
		}
		return r.arm
	}
	c.execNative()
	pushParked(r)
	return r.arm
}
