// Package vsemaphore is the shim for golang.org/x/sync/semaphore, modelled
// after its implementation: FIFO waiters, Release grants from the front.
package vsemaphore

import (
	"context"

	"golang.org/x/sync/semaphore"

	"github.com/open-telemetry/otel-arrow/collector/processor/concurrentbatchprocessor/zzverif/vs"
)

type waiter struct {
	n       int64
	granted bool
}

type Weighted struct {
	obj     vs.Obj
	size    int64
	cur     int64
	waiters []*waiter
	real    *semaphore.Weighted
}

func NewWeighted(n int64) *Weighted {
	return &Weighted{size: n, real: semaphore.NewWeighted(n)}
}

// InUse exposes the modelled counter to monitors.
func (w *Weighted) InUse() int64 { return w.cur }

func (w *Weighted) Acquire(ctx context.Context, n int64) error {
	s := vs.Cur()
	if s == nil {
		return w.real.Acquire(ctx, n)
	}
	if s.Aborting() {
		return nil
	}
	s.Point(&vs.Req{Kind: vs.OpSemAcquire, Obj: &w.obj, Note: "sem.acquire"})
	if w.size-w.cur >= n && len(w.waiters) == 0 {
		w.cur += n
		return nil
	}
	if n > w.size {
		// never satisfiable: wait for ctx
		vs.Recv(ctx.Done())
		return ctx.Err()
	}
	wt := &waiter{n: n}
	w.waiters = append(w.waiters, wt)
	done := ctx.Done()
	// wait for the grant or for ctx
	gch := vs.RecvCase(done)
	for {
		if wt.granted {
			return nil
		}
		if done == nil {
			s.Point(&vs.Req{Kind: vs.OpSemWait, Obj: &w.obj, Enabled: func() bool { return wt.granted }, Note: "sem.wait"})
			continue
		}
		// either granted or ctx done: model as a wait on a predicate that also
		// observes the context
		s.Point(&vs.Req{Kind: vs.OpSemWait, Obj: &w.obj, Enabled: func() bool { return wt.granted || ctxDone(done) }, Note: "sem.wait(ctx)"})
		_ = gch
		if wt.granted {
			return nil
		}
		if ctxDone(done) {
			// remove from the queue (as the real implementation does) and
			// pass the baton if we were at the front
			for i, x := range w.waiters {
				if x == wt {
					front := i == 0
					w.waiters = append(w.waiters[:i:i], w.waiters[i+1:]...)
					if front && w.size > w.cur {
						w.notify()
					}
					break
				}
			}
			return ctx.Err()
		}
	}
}

func ctxDone(done <-chan struct{}) bool {
	select {
	case <-done:
		return true
	default:
		return false
	}
}

func (w *Weighted) TryAcquire(n int64) bool {
	s := vs.Cur()
	if s == nil {
		return w.real.TryAcquire(n)
	}
	if s.Aborting() {
		return false
	}
	s.Point(&vs.Req{Kind: vs.OpSemAcquire, Obj: &w.obj, Note: "sem.tryacquire"})
	if w.size-w.cur >= n && len(w.waiters) == 0 {
		w.cur += n
		return true
	}
	return false
}

func (w *Weighted) Release(n int64) {
	s := vs.Cur()
	if s == nil {
		w.real.Release(n)
		return
	}
	if s.Aborting() {
		return
	}
	s.Point(&vs.Req{Kind: vs.OpSemRelease, Obj: &w.obj, Note: "sem.release"})
	w.cur -= n
	if w.cur < 0 {
		panic("semaphore: released more than held")
	}
	w.notify()
}

func (w *Weighted) notify() {
	for len(w.waiters) > 0 {
		wt := w.waiters[0]
		if w.size-w.cur < wt.n {
			break
		}
		w.cur += wt.n
		wt.granted = true
		w.waiters = w.waiters[1:]
	}
}
