// Package vsync is the shim for package sync used by rewritten product code.
package vsync

import (
	"sync"

	"github.com/open-telemetry/otel-arrow/collector/processor/concurrentbatchprocessor/zzverif/vs"
)

type Locker = sync.Locker
// Pool models sync.Pool deterministically: Put pushes, Get pops the most
// recently put item (maximal reuse - the behaviour that exposes aliasing
// between the previous and the next holder) and falls back to New. The real
// pool may also drop items at any GC; "always New" is the behaviour of the
// same code without a pool. Get and Put are scheduling points on the pool.
type Pool struct {
	New func() any

	obj   vs.Obj
	items []any
	real  sync.Pool
}

func (p *Pool) Get() any {
	s := vs.Cur()
	if s == nil {
		if p.real.New == nil {
			p.real.New = p.New
		}
		return p.real.Get()
	}
	if !s.Aborting() {
		s.Point(&vs.Req{Kind: vs.OpMap, Obj: &p.obj, Note: "pool.get"})
	}
	if n := len(p.items); n > 0 {
		x := p.items[n-1]
		p.items = p.items[:n-1]
		return x
	}
	if p.New != nil {
		return p.New()
	}
	return nil
}

func (p *Pool) Put(x any) {
	s := vs.Cur()
	if s == nil {
		p.real.Put(x)
		return
	}
	if s.Aborting() {
		return
	}
	s.Point(&vs.Req{Kind: vs.OpMap, Obj: &p.obj, Note: "pool.put"})
	if x != nil {
		p.items = append(p.items, x)
	}
}

func OnceFunc(f func()) func() {
	var o Once
	return func() { o.Do(f) }
}

func OnceValue[T any](f func() T) func() T {
	var o Once
	var v T
	return func() T { o.Do(func() { v = f() }); return v }
}

// Mutex ---------------------------------------------------------------------

type Mutex struct {
	obj    vs.Obj
	locked bool
	holder *vs.Thread
	real   sync.Mutex
}

func (m *Mutex) Lock() {
	s := vs.Cur()
	if s == nil {
		m.real.Lock()
		return
	}
	if s.Aborting() {
		return
	}
	s.Point(&vs.Req{Kind: vs.OpLock, Obj: &m.obj, Enabled: func() bool { return !m.locked }, Note: "mutex", Holder: func() *vs.Thread { return m.holder }})
	m.locked = true
	m.holder = s.Running()
}

func (m *Mutex) TryLock() bool {
	s := vs.Cur()
	if s == nil {
		return m.real.TryLock()
	}
	if s.Aborting() {
		return false
	}
	s.Point(&vs.Req{Kind: vs.OpLock, Obj: &m.obj, Note: "trylock"})
	if m.locked {
		return false
	}
	m.locked = true
	m.holder = s.Running()
	return true
}

func (m *Mutex) Unlock() {
	s := vs.Cur()
	if s == nil {
		m.real.Unlock()
		return
	}
	if s.Aborting() {
		return
	}
	s.Point(&vs.Req{Kind: vs.OpUnlock, Obj: &m.obj, Note: "mutex"})
	if !m.locked {
		panic("sync: unlock of unlocked mutex")
	}
	m.locked = false
	m.holder = nil
}

// RWMutex -------------------------------------------------------------------

type RWMutex struct {
	obj     vs.Obj
	writer  bool
	readers int
	holder  *vs.Thread // the writer, or the most recent reader
	real    sync.RWMutex
}

func (m *RWMutex) Lock() {
	s := vs.Cur()
	if s == nil {
		m.real.Lock()
		return
	}
	if s.Aborting() {
		return
	}
	s.Point(&vs.Req{Kind: vs.OpLock, Obj: &m.obj, Enabled: func() bool { return !m.writer && m.readers == 0 }, Note: "rwmutex", Holder: func() *vs.Thread { return m.holder }})
	m.writer = true
	m.holder = s.Running()
}

func (m *RWMutex) TryLock() bool {
	s := vs.Cur()
	if s == nil {
		return m.real.TryLock()
	}
	if s.Aborting() {
		return false
	}
	s.Point(&vs.Req{Kind: vs.OpLock, Obj: &m.obj, Note: "rw trylock"})
	if m.writer || m.readers > 0 {
		return false
	}
	m.writer = true
	return true
}

func (m *RWMutex) Unlock() {
	s := vs.Cur()
	if s == nil {
		m.real.Unlock()
		return
	}
	if s.Aborting() {
		return
	}
	s.Point(&vs.Req{Kind: vs.OpUnlock, Obj: &m.obj, Note: "rwmutex"})
	if !m.writer {
		panic("sync: Unlock of unlocked RWMutex")
	}
	m.writer = false
}

func (m *RWMutex) RLock() {
	s := vs.Cur()
	if s == nil {
		m.real.RLock()
		return
	}
	if s.Aborting() {
		return
	}
	s.Point(&vs.Req{Kind: vs.OpRLock, Obj: &m.obj, Enabled: func() bool { return !m.writer }, Note: "rwmutex"})
	m.readers++
}

func (m *RWMutex) TryRLock() bool {
	s := vs.Cur()
	if s == nil {
		return m.real.TryRLock()
	}
	if s.Aborting() {
		return false
	}
	s.Point(&vs.Req{Kind: vs.OpRLock, Obj: &m.obj, Note: "rw tryrlock"})
	if m.writer {
		return false
	}
	m.readers++
	return true
}

func (m *RWMutex) RUnlock() {
	s := vs.Cur()
	if s == nil {
		m.real.RUnlock()
		return
	}
	if s.Aborting() {
		return
	}
	s.Point(&vs.Req{Kind: vs.OpRUnlock, Obj: &m.obj, Note: "rwmutex"})
	if m.readers <= 0 {
		panic("sync: RUnlock of unlocked RWMutex")
	}
	m.readers--
}

type rlocker RWMutex

func (r *rlocker) Lock()   { (*RWMutex)(r).RLock() }
func (r *rlocker) Unlock() { (*RWMutex)(r).RUnlock() }

func (m *RWMutex) RLocker() Locker { return (*rlocker)(m) }

// WaitGroup -----------------------------------------------------------------

type WaitGroup struct {
	obj  vs.Obj
	n    int
	real sync.WaitGroup
}

func (w *WaitGroup) Add(delta int) {
	s := vs.Cur()
	if s == nil {
		w.real.Add(delta)
		return
	}
	if s.Aborting() {
		return
	}
	s.Point(&vs.Req{Kind: vs.OpWGAdd, Obj: &w.obj, Note: "wg", Tag: uint64(int64(delta))})
	w.n += delta
	if w.n < 0 {
		panic("sync: negative WaitGroup counter")
	}
}

func (w *WaitGroup) Done() { w.Add(-1) }

func (w *WaitGroup) Wait() {
	s := vs.Cur()
	if s == nil {
		w.real.Wait()
		return
	}
	if s.Aborting() {
		return
	}
	s.Point(&vs.Req{Kind: vs.OpWGWait, Obj: &w.obj, Enabled: func() bool { return w.n == 0 }, Note: "wg"})
}

// Count exposes the modelled counter to monitors.
func (w *WaitGroup) Count() int { return w.n }

// Once ----------------------------------------------------------------------

type Once struct {
	m    Mutex
	done bool
	real sync.Once
}

func (o *Once) Do(f func()) {
	if vs.Cur() == nil {
		o.real.Do(f)
		return
	}
	o.m.Lock()
	defer o.m.Unlock()
	if !o.done {
		defer func() { o.done = true }()
		f()
	}
}

// Map -----------------------------------------------------------------------

type Map struct {
	obj  vs.Obj
	m    map[any]any
	keys []any // insertion order: Range is deterministic
	real sync.Map
}

func (m *Map) point(note string) bool {
	s := vs.Cur()
	if s.Aborting() {
		return false
	}
	s.Point(&vs.Req{Kind: vs.OpMap, Obj: &m.obj, Note: note})
	if m.m == nil {
		m.m = map[any]any{}
	}
	return true
}

func (m *Map) Load(key any) (any, bool) {
	if vs.Cur() == nil {
		return m.real.Load(key)
	}
	if !m.point("load") {
		return nil, false
	}
	v, ok := m.m[key]
	return v, ok
}

func (m *Map) set(key, value any) {
	if _, ok := m.m[key]; !ok {
		m.keys = append(m.keys, key)
	}
	m.m[key] = value
}

func (m *Map) del(key any) {
	if _, ok := m.m[key]; ok {
		delete(m.m, key)
		for i, k := range m.keys {
			if k == key {
				m.keys = append(m.keys[:i:i], m.keys[i+1:]...)
				break
			}
		}
	}
}

func (m *Map) Store(key, value any) {
	if vs.Cur() == nil {
		m.real.Store(key, value)
		return
	}
	if !m.point("store") {
		return
	}
	m.set(key, value)
}

func (m *Map) Clear() {
	if vs.Cur() == nil {
		m.real.Clear()
		return
	}
	if !m.point("clear") {
		return
	}
	m.m = map[any]any{}
	m.keys = nil
}

func (m *Map) LoadOrStore(key, value any) (any, bool) {
	if vs.Cur() == nil {
		return m.real.LoadOrStore(key, value)
	}
	if !m.point("loadorstore") {
		return value, false
	}
	if v, ok := m.m[key]; ok {
		return v, true
	}
	m.set(key, value)
	return value, false
}

func (m *Map) LoadAndDelete(key any) (any, bool) {
	if vs.Cur() == nil {
		return m.real.LoadAndDelete(key)
	}
	if !m.point("loadanddelete") {
		return nil, false
	}
	v, ok := m.m[key]
	m.del(key)
	return v, ok
}

func (m *Map) Delete(key any) { m.LoadAndDelete(key) }

func (m *Map) Swap(key, value any) (any, bool) {
	if vs.Cur() == nil {
		return m.real.Swap(key, value)
	}
	if !m.point("swap") {
		return nil, false
	}
	v, ok := m.m[key]
	m.set(key, value)
	return v, ok
}

func (m *Map) CompareAndSwap(key, old, new any) bool {
	if vs.Cur() == nil {
		return m.real.CompareAndSwap(key, old, new)
	}
	if !m.point("cas") {
		return false
	}
	if v, ok := m.m[key]; ok && v == old {
		m.m[key] = new
		return true
	}
	return false
}

func (m *Map) CompareAndDelete(key, old any) bool {
	if vs.Cur() == nil {
		return m.real.CompareAndDelete(key, old)
	}
	if !m.point("cad") {
		return false
	}
	if v, ok := m.m[key]; ok && v == old {
		m.del(key)
		return true
	}
	return false
}

func (m *Map) Range(f func(key, value any) bool) {
	if vs.Cur() == nil {
		m.real.Range(f)
		return
	}
	if !m.point("range") {
		return
	}
	keys := append([]any(nil), m.keys...)
	for _, k := range keys {
		v, ok := m.m[k]
		if !ok {
			continue
		}
		if !f(k, v) {
			break
		}
	}
}

// Cond ----------------------------------------------------------------------

type Cond struct {
	L       Locker
	obj     vs.Obj
	waiters []*condWaiter
	real    *sync.Cond
}

type condWaiter struct{ woken bool }

func NewCond(l Locker) *Cond { return &Cond{L: l, real: sync.NewCond(l)} }

func (c *Cond) Wait() {
	s := vs.Cur()
	if s == nil {
		c.real.Wait()
		return
	}
	if s.Aborting() {
		return
	}
	w := &condWaiter{}
	c.waiters = append(c.waiters, w)
	c.L.Unlock()
	s.Point(&vs.Req{Kind: vs.OpCond, Obj: &c.obj, Enabled: func() bool { return w.woken }, Note: "cond.wait"})
	c.L.Lock()
}

func (c *Cond) Signal() {
	s := vs.Cur()
	if s == nil {
		c.real.Signal()
		return
	}
	if s.Aborting() {
		return
	}
	s.Point(&vs.Req{Kind: vs.OpCond, Obj: &c.obj, Note: "cond.signal"})
	if len(c.waiters) > 0 {
		c.waiters[0].woken = true
		c.waiters = c.waiters[1:]
	}
}

func (c *Cond) Broadcast() {
	s := vs.Cur()
	if s == nil {
		c.real.Broadcast()
		return
	}
	if s.Aborting() {
		return
	}
	s.Point(&vs.Req{Kind: vs.OpCond, Obj: &c.obj, Note: "cond.broadcast"})
	for _, w := range c.waiters {
		w.woken = true
	}
	c.waiters = nil
}
