package vs

import (
	"time"
)

// Exec is one fresh instance of a driver: Main is run under the scheduler,
// Check is the end-of-execution oracle (called for complete executions only;
// deadlocks, panics and invariant failures are reported by the explorer).
type Exec struct {
	Main func()
	// Check returns violations ("<property>: message") and a signature of the
	// observable outcome (for the distinct-outcome statistic).
	Check func(out *Outcome) (violations []string, outcomeSig uint64)
	// Invariant is evaluated at every scheduling step with all workers parked.
	Invariant func(s *Sched) string
	// OnStuck (optional) is called for an execution that ended in a deadlock or a
	// livelock - a final state, nothing further can happen - and returns the
	// violations that this final state implies ("<property>: message").
	OnStuck func(out *Outcome) []string
}

type Violation struct {
	Kind    string // "deadlock", "panic", "invariant", "oracle", "stepcap"
	Msg     string
	Choices []int
	Trace   []string
}

type Stats struct {
	Executions    int
	Complete      int
	Cut           int
	Steps         int64
	ChoicePoints  int64
	States        int
	MaxPoints     int
	MaxPreempts   int
	Outcomes      map[uint64]int
	StepCaps      int
	BudgetHit     bool
	StateCapHit   bool
	BoundDone     int
	TimerFireRuns int
}

type Explorer struct {
	Cfg       Config
	Bound     int
	Prune     bool
	New       func() *Exec
	MaxExecs  int
	Deadline  time.Time
	Stats     Stats
	StopFirst bool
	MaxStates int // memory guard: stop (exhaustive=false) when the visited table exceeds this
	// Shard restricts the exploration to the top-level subtrees whose index
	// mod ShardN == Shard (ShardN == 0: everything).
	Shard, ShardN int
}

func (e *Explorer) runOnce(prefix []int, visited map[uint64]int8, trace bool) (*Outcome, []string, uint64) {
	x := e.New()
	cfg := e.Cfg
	cfg.Invariant = x.Invariant
	cfg.Trace = trace
	out := Run(cfg, prefix, visited, x.Main)
	var viol []string
	var sig uint64
	if !out.Cut && out.Deadlock == "" && out.Panic == "" && out.InvFail == "" && !out.StepCap && x.Check != nil {
		viol, sig = x.Check(out)
	}
	if (out.Deadlock != "" || out.StepCap) && x.OnStuck != nil {
		viol = x.OnStuck(out)
	}
	return out, viol, sig
}

// Explore enumerates all executions within the preemption bound.
func (e *Explorer) Explore() []Violation {
	var visited map[uint64]int8
	if e.Prune {
		visited = map[uint64]int8{}
	}
	if e.Stats.Outcomes == nil {
		e.Stats.Outcomes = map[uint64]int{}
	}
	var viols []Violation
	stack := [][]int{{}}
	first := true
	for len(stack) > 0 {
		if (e.MaxExecs > 0 && e.Stats.Executions >= e.MaxExecs) || (!e.Deadline.IsZero() && e.Stats.Executions%64 == 0 && time.Now().After(e.Deadline)) {
			e.Stats.BudgetHit = true
			break
		}
		prefix := stack[len(stack)-1]
		stack = stack[:len(stack)-1]
		out, ov, sig := e.runOnce(prefix, visited, false)
		st := &e.Stats
		st.Executions++
		st.Steps += int64(out.Steps)
		st.ChoicePoints += int64(len(out.Points))
		if len(out.Points) > st.MaxPoints {
			st.MaxPoints = len(out.Points)
		}
		if out.Preempts > st.MaxPreempts {
			st.MaxPreempts = out.Preempts
		}
		if out.TimerFires > 0 {
			st.TimerFireRuns++
		}
		choices := make([]int, len(out.Points))
		for i, p := range out.Points {
			choices[i] = p.Chosen
		}
		add := func(kind, msg string) {
			viols = append(viols, Violation{Kind: kind, Msg: msg, Choices: choices})
		}
		switch {
		case out.Cut:
			st.Cut++
		case out.Panic != "":
			add("panic", out.Panic)
		case out.Deadlock != "":
			add("deadlock", out.Deadlock)
			for _, m := range ov {
				add("oracle", m)
			}
		case out.InvFail != "":
			add("invariant", out.InvFail)
		case out.StepCap:
			st.StepCaps++
			add("stepcap", out.StepCapMsg)
			for _, m := range ov {
				add("oracle", m)
			}
		default:
			st.Complete++
			st.Outcomes[sig]++
			for _, m := range ov {
				add("oracle", m)
			}
		}
		if len(viols) > 0 && e.StopFirst {
			break
		}
		if out.StepCap {
			// a run that hit the step cap did not terminate (livelock or an
			// unbounded loop): its thousands of choice points are not expanded
			continue
		}
		if e.MaxStates > 0 && len(visited) > e.MaxStates {
			e.Stats.BudgetHit = true
			e.Stats.StateCapHit = true
			break
		}
		// expand alternatives at the new points
		cum := 0
		top := 0
		for i, p := range out.Points {
			if i >= len(prefix) {
				for alt := p.N - 1; alt >= 1; alt-- {
					c := cum
					if p.Cost1 {
						c++
					}
					if c > e.Bound {
						continue
					}
					if first && e.ShardN > 0 {
						top++
						if top%e.ShardN != e.Shard {
							continue
						}
					}
					np := make([]int, i+1)
					copy(np, choices[:i])
					np[i] = alt
					stack = append(stack, np)
				}
			}
			if p.Cost1 && p.Chosen > 0 {
				cum++
			}
		}
		first = false
	}
	e.Stats.States = len(visited)
	if !e.Stats.BudgetHit {
		e.Stats.BoundDone = e.Bound
	}
	return viols
}

// Replay re-executes one choice list with tracing on.
func (e *Explorer) Replay(choices []int) (*Outcome, []string) {
	out, ov, _ := e.runOnce(choices, nil, true)
	return out, ov
}
