// Package vtime is the shim for package time used by rewritten product code:
// timers and the clock are virtual and owned by the vs scheduler.
package vtime

import (
	"time"

	"github.com/open-telemetry/otel-arrow/collector/processor/concurrentbatchprocessor/zzverif/vs"
)

type (
	Duration   = time.Duration
	Time       = time.Time
	Month      = time.Month
	Weekday    = time.Weekday
	Location   = time.Location
	ParseError = time.ParseError
)

const (
	Nanosecond  = time.Nanosecond
	Microsecond = time.Microsecond
	Millisecond = time.Millisecond
	Second      = time.Second
	Minute      = time.Minute
	Hour        = time.Hour

	Layout      = time.Layout
	ANSIC       = time.ANSIC
	UnixDate    = time.UnixDate
	RFC822      = time.RFC822
	RFC1123     = time.RFC1123
	RFC3339     = time.RFC3339
	RFC3339Nano = time.RFC3339Nano
	Kitchen     = time.Kitchen
	Stamp       = time.Stamp
	StampMilli  = time.StampMilli
	StampMicro  = time.StampMicro
	StampNano   = time.StampNano
	DateTime    = time.DateTime
	DateOnly    = time.DateOnly
	TimeOnly    = time.TimeOnly
)

var (
	UTC             = time.UTC
	Local           = time.Local
	Unix            = time.Unix
	UnixMilli       = time.UnixMilli
	UnixMicro       = time.UnixMicro
	Date            = time.Date
	Parse           = time.Parse
	ParseDuration   = time.ParseDuration
	ParseInLocation = time.ParseInLocation
	FixedZone       = time.FixedZone
	LoadLocation    = time.LoadLocation
)

// epoch of the virtual clock
var epoch = time.Date(2020, 1, 1, 0, 0, 0, 0, time.UTC)

func vnow(s *vs.Sched) Time { return epoch.Add(Duration(s.Now())) }

func Now() Time {
	s := vs.Cur()
	if s == nil {
		return time.Now()
	}
	return vnow(s)
}

func Since(t Time) Duration { return Now().Sub(t) }
func Until(t Time) Duration { return t.Sub(Now()) }

func Sleep(d Duration) {
	s := vs.Cur()
	if s == nil {
		time.Sleep(d)
		return
	}
	if d <= 0 {
		vs.Gosched()
		return
	}
	s.SleepUntil(s.Now() + int64(d))
}

type Timer struct {
	C    <-chan Time
	c    chan Time
	h    *vs.TimerHandle
	f    func()
	real *time.Timer
}

func NewTimer(d Duration) *Timer {
	s := vs.Cur()
	if s == nil {
		rt := time.NewTimer(d)
		return &Timer{C: rt.C, real: rt}
	}
	t := &Timer{c: make(chan Time, 1)}
	t.C = t.c
	t.h = s.NewTimerRec(func(now int64) {
		select {
		case t.c <- epoch.Add(Duration(now)):
		default:
		}
	})
	if !s.Aborting() {
		s.Point(&vs.Req{Kind: vs.OpTimerSet, Obj: t.h.Obj(), Note: "newtimer"})
		t.h.Arm(s.Now() + int64(d))
	}
	return t
}

func AfterFunc(d Duration, f func()) *Timer {
	s := vs.Cur()
	if s == nil {
		return &Timer{real: time.AfterFunc(d, f)}
	}
	t := &Timer{f: f}
	t.h = s.NewTimerRec(func(now int64) {
		vs.GoFromScheduler(f)
	})
	if !s.Aborting() {
		s.Point(&vs.Req{Kind: vs.OpTimerSet, Obj: t.h.Obj(), Note: "afterfunc"})
		t.h.Arm(s.Now() + int64(d))
	}
	return t
}

func After(d Duration) <-chan Time { return NewTimer(d).C }

// Stop follows Go >= 1.23 semantics (the module declares go 1.23): after Stop
// returns no stale value can be received from C.
func (t *Timer) Stop() bool {
	s := vs.Cur()
	if s == nil {
		return t.real.Stop()
	}
	if s.Aborting() {
		return false
	}
	s.Point(&vs.Req{Kind: vs.OpTimerSet, Obj: t.h.Obj(), Note: "stop"})
	was := t.h.Armed()
	t.h.Disarm()
	if t.c != nil {
		select {
		case <-t.c:
			// Go 1.23: a fired-but-unreceived timer counts as still pending.
			was = true
		default:
		}
	}
	return was
}

func (t *Timer) Reset(d Duration) bool {
	s := vs.Cur()
	if s == nil {
		return t.real.Reset(d)
	}
	if s.Aborting() {
		return false
	}
	s.Point(&vs.Req{Kind: vs.OpTimerSet, Obj: t.h.Obj(), Note: "reset"})
	was := t.h.Armed()
	if t.c != nil {
		select {
		case <-t.c:
			was = true
		default:
		}
	}
	t.h.Arm(s.Now() + int64(d))
	return was
}

type Ticker struct {
	C    <-chan Time
	c    chan Time
	h    *vs.TimerHandle
	real *time.Ticker
}

func NewTicker(d Duration) *Ticker {
	s := vs.Cur()
	if s == nil {
		rt := time.NewTicker(d)
		return &Ticker{C: rt.C, real: rt}
	}
	if d <= 0 {
		panic("non-positive interval for NewTicker")
	}
	t := &Ticker{c: make(chan Time, 1)}
	t.C = t.c
	t.h = s.NewTimerRec(func(now int64) {
		select {
		case t.c <- epoch.Add(Duration(now)):
		default:
		}
	})
	if !s.Aborting() {
		s.Point(&vs.Req{Kind: vs.OpTimerSet, Obj: t.h.Obj(), Note: "newticker"})
		t.h.SetPeriod(int64(d))
		t.h.Arm(s.Now() + int64(d))
	}
	return t
}

func (t *Ticker) Stop() {
	s := vs.Cur()
	if s == nil {
		t.real.Stop()
		return
	}
	if s.Aborting() {
		return
	}
	s.Point(&vs.Req{Kind: vs.OpTimerSet, Obj: t.h.Obj(), Note: "ticker.stop"})
	t.h.SetPeriod(0)
	t.h.Disarm()
}

func (t *Ticker) Reset(d Duration) {
	s := vs.Cur()
	if s == nil {
		t.real.Reset(d)
		return
	}
	if s.Aborting() {
		return
	}
	s.Point(&vs.Req{Kind: vs.OpTimerSet, Obj: t.h.Obj(), Note: "ticker.reset"})
	t.h.SetPeriod(int64(d))
	t.h.Arm(s.Now() + int64(d))
}

func Tick(d Duration) <-chan Time {
	if d <= 0 {
		return nil
	}
	return NewTicker(d).C
}
