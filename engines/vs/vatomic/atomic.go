// Package vatomic is the shim for sync/atomic: every operation is a
// scheduling point on an object identified by the address of the variable,
// then the real atomic operation is performed.
package vatomic

import (
	"sync/atomic"
	"unsafe"

	"github.com/open-telemetry/otel-arrow/collector/processor/concurrentbatchprocessor/zzverif/vs"
)

func point(addr unsafe.Pointer, note string) {
	s := vs.Cur()
	if s == nil || s.Aborting() || vs.Self() == nil {
		return
	}
	s.Point(&vs.Req{Kind: vs.OpAtomic, Obj: s.ObjAt(uintptr(addr)), Note: note})
}

func AddInt32(p *int32, d int32) int32       { point(unsafe.Pointer(p), "add"); return atomic.AddInt32(p, d) }
func AddInt64(p *int64, d int64) int64       { point(unsafe.Pointer(p), "add"); return atomic.AddInt64(p, d) }
func AddUint32(p *uint32, d uint32) uint32   { point(unsafe.Pointer(p), "add"); return atomic.AddUint32(p, d) }
func AddUint64(p *uint64, d uint64) uint64   { point(unsafe.Pointer(p), "add"); return atomic.AddUint64(p, d) }
func LoadInt32(p *int32) int32               { point(unsafe.Pointer(p), "load"); return atomic.LoadInt32(p) }
func LoadInt64(p *int64) int64               { point(unsafe.Pointer(p), "load"); return atomic.LoadInt64(p) }
func LoadUint32(p *uint32) uint32            { point(unsafe.Pointer(p), "load"); return atomic.LoadUint32(p) }
func LoadUint64(p *uint64) uint64            { point(unsafe.Pointer(p), "load"); return atomic.LoadUint64(p) }
func StoreInt32(p *int32, v int32)           { point(unsafe.Pointer(p), "store"); atomic.StoreInt32(p, v) }
func StoreInt64(p *int64, v int64)           { point(unsafe.Pointer(p), "store"); atomic.StoreInt64(p, v) }
func StoreUint32(p *uint32, v uint32)        { point(unsafe.Pointer(p), "store"); atomic.StoreUint32(p, v) }
func StoreUint64(p *uint64, v uint64)        { point(unsafe.Pointer(p), "store"); atomic.StoreUint64(p, v) }
func SwapInt32(p *int32, v int32) int32      { point(unsafe.Pointer(p), "swap"); return atomic.SwapInt32(p, v) }
func SwapInt64(p *int64, v int64) int64      { point(unsafe.Pointer(p), "swap"); return atomic.SwapInt64(p, v) }
func SwapUint32(p *uint32, v uint32) uint32  { point(unsafe.Pointer(p), "swap"); return atomic.SwapUint32(p, v) }
func SwapUint64(p *uint64, v uint64) uint64  { point(unsafe.Pointer(p), "swap"); return atomic.SwapUint64(p, v) }
func CompareAndSwapInt32(p *int32, o, n int32) bool {
	point(unsafe.Pointer(p), "cas")
	return atomic.CompareAndSwapInt32(p, o, n)
}
func CompareAndSwapInt64(p *int64, o, n int64) bool {
	point(unsafe.Pointer(p), "cas")
	return atomic.CompareAndSwapInt64(p, o, n)
}
func CompareAndSwapUint32(p *uint32, o, n uint32) bool {
	point(unsafe.Pointer(p), "cas")
	return atomic.CompareAndSwapUint32(p, o, n)
}
func CompareAndSwapUint64(p *uint64, o, n uint64) bool {
	point(unsafe.Pointer(p), "cas")
	return atomic.CompareAndSwapUint64(p, o, n)
}

type Int32 struct{ v atomic.Int32 }

func (x *Int32) Load() int32            { point(unsafe.Pointer(x), "load"); return x.v.Load() }
func (x *Int32) Store(v int32)          { point(unsafe.Pointer(x), "store"); x.v.Store(v) }
func (x *Int32) Add(d int32) int32      { point(unsafe.Pointer(x), "add"); return x.v.Add(d) }
func (x *Int32) Swap(v int32) int32     { point(unsafe.Pointer(x), "swap"); return x.v.Swap(v) }
func (x *Int32) CompareAndSwap(o, n int32) bool {
	point(unsafe.Pointer(x), "cas")
	return x.v.CompareAndSwap(o, n)
}

type Int64 struct{ v atomic.Int64 }

func (x *Int64) Load() int64        { point(unsafe.Pointer(x), "load"); return x.v.Load() }
func (x *Int64) Store(v int64)      { point(unsafe.Pointer(x), "store"); x.v.Store(v) }
func (x *Int64) Add(d int64) int64  { point(unsafe.Pointer(x), "add"); return x.v.Add(d) }
func (x *Int64) Swap(v int64) int64 { point(unsafe.Pointer(x), "swap"); return x.v.Swap(v) }
func (x *Int64) CompareAndSwap(o, n int64) bool {
	point(unsafe.Pointer(x), "cas")
	return x.v.CompareAndSwap(o, n)
}

type Uint32 struct{ v atomic.Uint32 }

func (x *Uint32) Load() uint32         { point(unsafe.Pointer(x), "load"); return x.v.Load() }
func (x *Uint32) Store(v uint32)       { point(unsafe.Pointer(x), "store"); x.v.Store(v) }
func (x *Uint32) Add(d uint32) uint32  { point(unsafe.Pointer(x), "add"); return x.v.Add(d) }
func (x *Uint32) Swap(v uint32) uint32 { point(unsafe.Pointer(x), "swap"); return x.v.Swap(v) }
func (x *Uint32) CompareAndSwap(o, n uint32) bool {
	point(unsafe.Pointer(x), "cas")
	return x.v.CompareAndSwap(o, n)
}

type Uint64 struct{ v atomic.Uint64 }

func (x *Uint64) Load() uint64         { point(unsafe.Pointer(x), "load"); return x.v.Load() }
func (x *Uint64) Store(v uint64)       { point(unsafe.Pointer(x), "store"); x.v.Store(v) }
func (x *Uint64) Add(d uint64) uint64  { point(unsafe.Pointer(x), "add"); return x.v.Add(d) }
func (x *Uint64) Swap(v uint64) uint64 { point(unsafe.Pointer(x), "swap"); return x.v.Swap(v) }
func (x *Uint64) CompareAndSwap(o, n uint64) bool {
	point(unsafe.Pointer(x), "cas")
	return x.v.CompareAndSwap(o, n)
}

type Bool struct{ v atomic.Bool }

func (x *Bool) Load() bool        { point(unsafe.Pointer(x), "load"); return x.v.Load() }
func (x *Bool) Store(v bool)      { point(unsafe.Pointer(x), "store"); x.v.Store(v) }
func (x *Bool) Swap(v bool) bool  { point(unsafe.Pointer(x), "swap"); return x.v.Swap(v) }
func (x *Bool) CompareAndSwap(o, n bool) bool {
	point(unsafe.Pointer(x), "cas")
	return x.v.CompareAndSwap(o, n)
}

type Value struct{ v atomic.Value }

func (x *Value) Load() any       { point(unsafe.Pointer(x), "load"); return x.v.Load() }
func (x *Value) Store(v any)     { point(unsafe.Pointer(x), "store"); x.v.Store(v) }
func (x *Value) Swap(v any) any  { point(unsafe.Pointer(x), "swap"); return x.v.Swap(v) }
func (x *Value) CompareAndSwap(o, n any) bool {
	point(unsafe.Pointer(x), "cas")
	return x.v.CompareAndSwap(o, n)
}

type Pointer[T any] struct{ v atomic.Pointer[T] }

func (x *Pointer[T]) Load() *T       { point(unsafe.Pointer(x), "load"); return x.v.Load() }
func (x *Pointer[T]) Store(v *T)     { point(unsafe.Pointer(x), "store"); x.v.Store(v) }
func (x *Pointer[T]) Swap(v *T) *T   { point(unsafe.Pointer(x), "swap"); return x.v.Swap(v) }
func (x *Pointer[T]) CompareAndSwap(o, n *T) bool {
	point(unsafe.Pointer(x), "cas")
	return x.v.CompareAndSwap(o, n)
}
