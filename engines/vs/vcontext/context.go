// Package vcontext is the shim for package context.  Cancellable contexts are
// a custom type whose Done channel is closed at a scheduling point, so the
// moment of cancellation is an explored choice; deadlines use virtual time.
package vcontext

import (
	"context"
	"time"

	"github.com/open-telemetry/otel-arrow/collector/processor/concurrentbatchprocessor/zzverif/vs"
)

type (
	Context         = context.Context
	CancelFunc      = context.CancelFunc
	CancelCauseFunc = context.CancelCauseFunc
)

var (
	Canceled         = context.Canceled
	DeadlineExceeded = context.DeadlineExceeded
)

func Background() Context { return context.Background() }
func TODO() Context       { return context.TODO() }

func WithValue(parent Context, key, val any) Context { return context.WithValue(parent, key, val) }

func WithoutCancel(parent Context) Context { return context.WithoutCancel(parent) }

type ctxKey struct{}

var selfKey = &ctxKey{}

type vctx struct {
	parent   Context
	done     chan struct{}
	err      error
	cause    error
	children []*vctx
	obj      vs.Obj
	deadline time.Time
	hasDL    bool
	timer    *vs.TimerHandle
	afters   []func()
}

func (c *vctx) Deadline() (time.Time, bool) {
	if c.hasDL {
		return c.deadline, true
	}
	return c.parent.Deadline()
}
func (c *vctx) Done() <-chan struct{} { return c.done }
func (c *vctx) Err() error {
	if s := vs.Cur(); s != nil && !s.Aborting() && vs.Self() != nil && !peeking {
		s.Point(&vs.Req{Kind: vs.OpCtxErr, Obj: &c.obj, Note: "ctx.Err"})
	}
	return c.err
}
func (c *vctx) Value(key any) any {
	if key == any(selfKey) {
		return c
	}
	return c.parent.Value(key)
}

var peeking bool

// PeekErr reads ctx.Err() without a scheduling point (for monitors).
func PeekErr(ctx Context) error {
	if vs.Cur() == nil {
		return ctx.Err()
	}
	old := peeking
	peeking = true
	defer func() { peeking = old }()
	return ctx.Err()
}

// IsDerivedFrom reports whether ctx is (a descendant of) a shim context
// created by WithCancel/WithTimeout, i.e. is cancellable by a caller.
func Controller(ctx Context) any {
	if v, ok := ctx.Value(selfKey).(*vctx); ok {
		return v
	}
	return nil
}

func (c *vctx) cancelLocked(err, cause error) {
	if c.err != nil {
		return
	}
	c.err = err
	if cause == nil {
		cause = err
	}
	c.cause = cause
	close(c.done)
	vs.MarkClosed(c.done)
	if c.timer != nil {
		c.timer.Disarm()
	}
	for _, ch := range c.children {
		ch.cancelLocked(err, cause)
	}
	c.children = nil
	for _, f := range c.afters {
		vs.Go(f)
	}
	c.afters = nil
}

func newCtx(parent Context) *vctx {
	c := &vctx{parent: parent, done: make(chan struct{})}
	if p, ok := parent.Value(selfKey).(*vctx); ok {
		if p.err != nil {
			c.cancelLocked(p.err, p.cause)
		} else {
			p.children = append(p.children, c)
		}
	} else if parent.Err() != nil {
		c.cancelLocked(parent.Err(), context.Cause(parent))
	}
	return c
}

func (c *vctx) cancel(err, cause error) {
	s := vs.Cur()
	if s == nil {
		return
	}
	if s.Aborting() {
		return
	}
	if vs.Self() != nil {
		s.Point(&vs.Req{Kind: vs.OpCancel, Obj: &c.obj, Note: "cancel"})
	}
	c.cancelLocked(err, cause)
}

func WithCancel(parent Context) (Context, CancelFunc) {
	if vs.Cur() == nil {
		return context.WithCancel(parent)
	}
	c := newCtx(parent)
	return c, func() { c.cancel(context.Canceled, nil) }
}

func WithCancelCause(parent Context) (Context, CancelCauseFunc) {
	if vs.Cur() == nil {
		return context.WithCancelCause(parent)
	}
	c := newCtx(parent)
	return c, func(cause error) { c.cancel(context.Canceled, cause) }
}

func WithDeadlineCause(parent Context, d time.Time, cause error) (Context, CancelFunc) {
	s := vs.Cur()
	if s == nil {
		return context.WithDeadlineCause(parent, d, cause)
	}
	c := newCtx(parent)
	if pd, ok := parent.Deadline(); ok && pd.Before(d) {
		return c, func() { c.cancel(context.Canceled, nil) }
	}
	c.deadline, c.hasDL = d, true
	if c.err == nil {
		c.timer = s.NewTimerRec(func(int64) { c.cancelLocked(context.DeadlineExceeded, cause) })
		c.timer.Arm(s.Now() + int64(d.Sub(vnow(s))))
	}
	return c, func() { c.cancel(context.Canceled, nil) }
}

var epoch = time.Date(2020, 1, 1, 0, 0, 0, 0, time.UTC)

func vnow(s *vs.Sched) time.Time { return epoch.Add(time.Duration(s.Now())) }

func WithDeadline(parent Context, d time.Time) (Context, CancelFunc) {
	return WithDeadlineCause(parent, d, nil)
}

func WithTimeout(parent Context, timeout time.Duration) (Context, CancelFunc) {
	s := vs.Cur()
	if s == nil {
		return context.WithTimeout(parent, timeout)
	}
	return WithDeadlineCause(parent, vnow(s).Add(timeout), nil)
}

func WithTimeoutCause(parent Context, timeout time.Duration, cause error) (Context, CancelFunc) {
	s := vs.Cur()
	if s == nil {
		return context.WithTimeoutCause(parent, timeout, cause)
	}
	return WithDeadlineCause(parent, vnow(s).Add(timeout), cause)
}

func Cause(c Context) error {
	if v, ok := c.Value(selfKey).(*vctx); ok && vs.Cur() != nil {
		return v.cause
	}
	return context.Cause(c)
}

func AfterFunc(ctx Context, f func()) (stop func() bool) {
	if vs.Cur() == nil {
		return context.AfterFunc(ctx, f)
	}
	v, ok := ctx.Value(selfKey).(*vctx)
	if !ok {
		return func() bool { return true }
	}
	if v.err != nil {
		vs.Go(f)
		return func() bool { return false }
	}
	stopped := false
	ran := false
	v.afters = append(v.afters, func() {
		if !stopped {
			ran = true
			f()
		}
	})
	return func() bool {
		if ran || stopped {
			return false
		}
		stopped = true
		return true
	}
}
