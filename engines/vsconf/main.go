// vsconf: conformance of the vs scheduler model against the native Go
// runtime.  Each micro-program is run natively many times (outcome set
// collected) and exhaustively under vs; every natively observed outcome must
// be among the explored ones, listed impossible outcomes must be absent, and
// where an exact expected set is given the explored set must equal it.
package main

import (
	"runtime"
	"context"
	"fmt"
	"os"
	"sort"
	"strings"
	stdsync "sync"
	"time"

	"github.com/open-telemetry/otel-arrow/collector/processor/concurrentbatchprocessor/zzverif/vs"
	"github.com/open-telemetry/otel-arrow/collector/processor/concurrentbatchprocessor/zzverif/vs/vcontext"
	"github.com/open-telemetry/otel-arrow/collector/processor/concurrentbatchprocessor/zzverif/vs/vsemaphore"
	"github.com/open-telemetry/otel-arrow/collector/processor/concurrentbatchprocessor/zzverif/vs/vsync"
	"github.com/open-telemetry/otel-arrow/collector/processor/concurrentbatchprocessor/zzverif/vs/vtime"
)

type prog struct {
	name       string
	body       func(out *result)
	exact      []string // if non-nil: explored set must equal this
	impossible []string
	noNative   bool // timing dependent natively: only the explored set is checked
}

type result struct {
	mu  stdsync.Mutex
	log []string
}

func (r *result) add(s string) {
	r.mu.Lock()
	r.log = append(r.log, s)
	r.mu.Unlock()
}
func (r *result) String() string { return strings.Join(r.log, ",") }

// join waits for n done signals on a plain (native or vs) channel
func programs() []prog {
	return []prog{
		{name: "buffered-two-senders", exact: []string{"AB", "BA"}, body: func(out *result) {
			ch := make(chan string, 1)
			var wg vsync.WaitGroup
			wg.Add(2)
			vs.Go(func() { vs.S(ch).Send("A"); wg.Done() })
			vs.Go(func() { vs.S(ch).Send("B"); wg.Done() })
			x := vs.Recv(ch)
			y := vs.Recv(ch)
			wg.Wait()
			out.add(x + y)
		}},
		{name: "full-buffer-recv-admits-parked-sender", exact: []string{"A,B,empty"}, impossible: []string{"A,empty"}, body: func(out *result) {
			// B is parked on the full channel when the receiver starts; after
			// receiving A a non-blocking receive must find B (the runtime moved
			// it into the buffer during the first receive)
			ch := make(chan string, 1)
			vs.S(ch).Send("A")
			parked := make(chan struct{})
			vs.Go(func() { vs.Close(parked); vs.S(ch).Send("B") })
			vs.Recv(parked)
			vs.WaitUntil("B parked", func() bool { return true })
			for i := 0; i < 50; i++ {
				vs.Gosched()
			}
			x := vs.Recv(ch)
			c := vs.RecvCase(ch)
			if vs.Select(true, c) == 0 {
				y := c.Value()
				d := vs.RecvCase(ch)
				if vs.Select(true, d) == 0 {
					out.add(x + "," + y + ",more")
				} else {
					out.add(x + "," + y + ",empty")
				}
			} else {
				out.add(x + ",empty")
			}
		}},
		{name: "unbuffered-rendezvous", exact: []string{"got1"}, body: func(out *result) {
			ch := make(chan int)
			vs.Go(func() { vs.S(ch).Send(1) })
			out.add(fmt.Sprintf("got%d", vs.Recv(ch)))
		}},
		{name: "unbuffered-select-default", exact: []string{"default", "sent"}, body: func(out *result) {
			ch := make(chan int)
			done := make(chan string, 1)
			vs.Go(func() {
				c := vs.S(ch).Case(1)
				if vs.Select(true, c) == 0 {
					vs.S(done).Send("sent")
				} else {
					vs.S(done).Send("default")
				}
			})
			stop := make(chan struct{})
			vs.Go(func() {
				r := vs.RecvCase(ch)
				s := vs.RecvCase(stop)
				vs.Select(false, r, s)
			})
			out.add(vs.Recv(done))
			vs.Close(stop)
		}},
		{name: "close-wakes-receiver", exact: []string{"closed"}, body: func(out *result) {
			ch := make(chan int)
			vs.Go(func() { vs.Close(ch) })
			_, ok := vs.Recv2(ch)
			if ok {
				out.add("value")
			} else {
				out.add("closed")
			}
		}},
		{name: "close-after-buffered-value", exact: []string{"7,true,0,false"}, body: func(out *result) {
			ch := make(chan int, 1)
			vs.S(ch).Send(7)
			vs.Close(ch)
			a, ok1 := vs.Recv2(ch)
			b, ok2 := vs.Recv2(ch)
			out.add(fmt.Sprintf("%d,%v,%d,%v", a, ok1, b, ok2))
		}},
		{name: "nil-channel-arm-never-taken", exact: []string{"arm1"}, body: func(out *result) {
			var nilch chan int
			ch := make(chan int, 1)
			vs.S(ch).Send(1)
			a := vs.RecvCase(nilch)
			b := vs.RecvCase(ch)
			out.add(fmt.Sprintf("arm%d", vs.Select(false, a, b)))
		}},
		{name: "select-two-ready-arms", exact: []string{"arm0", "arm1"}, body: func(out *result) {
			a, b := make(chan int, 1), make(chan int, 1)
			vs.S(a).Send(1)
			vs.S(b).Send(2)
			out.add(fmt.Sprintf("arm%d", vs.Select(false, vs.RecvCase(a), vs.RecvCase(b))))
		}},
		{name: "mutex-counter", exact: []string{"2"}, body: func(out *result) {
			var mu vsync.Mutex
			var wg vsync.WaitGroup
			n := 0
			wg.Add(2)
			for i := 0; i < 2; i++ {
				vs.Go(func() { mu.Lock(); n++; mu.Unlock(); wg.Done() })
			}
			wg.Wait()
			out.add(fmt.Sprint(n))
		}},
		{name: "check-then-act-lost-update", exact: []string{"1", "2"}, body: func(out *result) {
			var mu vsync.Mutex
			var wg vsync.WaitGroup
			n := 0
			wg.Add(2)
			for i := 0; i < 2; i++ {
				vs.Go(func() {
					mu.Lock()
					v := n
					mu.Unlock()
					mu.Lock()
					n = v + 1
					mu.Unlock()
					wg.Done()
				})
			}
			wg.Wait()
			out.add(fmt.Sprint(n))
		}},
		{name: "semaphore-bound", exact: []string{"max1"}, impossible: []string{"max2"}, body: func(out *result) {
			sem := vsemaphore.NewWeighted(1)
			var mu vsync.Mutex
			var wg vsync.WaitGroup
			in, max := 0, 0
			wg.Add(3)
			for i := 0; i < 3; i++ {
				vs.Go(func() {
					_ = sem.Acquire(context.Background(), 1)
					mu.Lock()
					in++
					if in > max {
						max = in
					}
					mu.Unlock()
					vs.Yield("in critical section")
					mu.Lock()
					in--
					mu.Unlock()
					sem.Release(1)
					wg.Done()
				})
			}
			wg.Wait()
			out.add(fmt.Sprintf("max%d", max))
		}},
		{name: "context-cancel-vs-value", exact: []string{"cancelled", "value"}, body: func(out *result) {
			ctx, cancel := vcontext.WithCancel(context.Background())
			ch := make(chan int, 1)
			vs.Go(func() { cancel() })
			vs.Go(func() { vs.S(ch).Send(1) })
			a := vs.RecvCase(ctx.Done())
			b := vs.RecvCase(ch)
			if vs.Select(false, a, b) == 0 {
				out.add("cancelled")
			} else {
				out.add("value")
			}
			cancel()
		}},
		{name: "context-child-cancelled-with-parent", exact: []string{"context canceled"}, body: func(out *result) {
			parent, cancel := vcontext.WithCancel(context.Background())
			child, cancel2 := vcontext.WithCancel(context.WithValue(parent, "k", "v"))
			defer cancel2()
			vs.Go(func() { cancel() })
			vs.Recv(child.Done())
			out.add(vcontext.PeekErr(child).Error())
		}},
		{name: "waitgroup-publishes-writes", exact: []string{"11"}, body: func(out *result) {
			var wg vsync.WaitGroup
			a, b := 0, 0
			wg.Add(2)
			vs.Go(func() { a = 1; wg.Done() })
			vs.Go(func() { b = 1; wg.Done() })
			wg.Wait()
			out.add(fmt.Sprintf("%d%d", a, b))
		}},
		{name: "timer-stop-vs-fire", noNative: true, exact: []string{"fired", "stopped"}, body: func(out *result) {
			t := vtime.NewTimer(vtime.Second)
			stopped := make(chan bool, 1)
			vs.Go(func() { stopped <- t.Stop() })
			a := vs.RecvCase(t.C)
			b := vs.RecvCase(stopped)
			switch vs.Select(false, a, b) {
			case 0:
				out.add("fired")
			default:
				// Go >= 1.23: after Stop no stale value can be received
				d := vs.RecvCase(t.C)
				if vs.Select(true, d) == 0 {
					out.add("stale-value-after-stop")
				} else {
					out.add("stopped")
				}
			}
		}},
		{name: "timer-reset-after-fire", noNative: true, exact: []string{"two-fires"}, body: func(out *result) {
			t := vtime.NewTimer(vtime.Second)
			vs.Recv(t.C)
			t.Reset(vtime.Second)
			vs.Recv(t.C)
			out.add("two-fires")
		}},
		{name: "map-loadorstore-race", exact: []string{"one-winner"}, impossible: []string{"two-winners"}, body: func(out *result) {
			var m vsync.Map
			var wg vsync.WaitGroup
			wins := make(chan bool, 2)
			wg.Add(2)
			for i := 0; i < 2; i++ {
				i := i
				vs.Go(func() {
					_, loaded := m.LoadOrStore("k", i)
					wins <- !loaded
					wg.Done()
				})
			}
			wg.Wait()
			n := 0
			for i := 0; i < 2; i++ {
				if <-wins {
					n++
				}
			}
			if n == 1 {
				out.add("one-winner")
			} else {
				out.add("two-winners")
			}
		}},
	}
}

func main() {
	fail := false
	total := 0
	for _, p := range programs() {
		native := map[string]int{}
		if !p.noNative {
			for i := 0; i < 1500; i++ {
				r := &result{}
				done := make(chan struct{})
				go func() { p.body(r); close(done) }()
				select {
				case <-done:
				case <-time.After(5 * time.Second):
					fmt.Printf("FAIL %s: native run hangs\n", p.name)
					os.Exit(1)
				}
				native[r.String()]++
			}
			// Goroutines started natively by the last bodies may not have reached
			// their channel operation yet; one of them waking up after the explorer
			// has installed a scheduler would act as a thread nobody scheduled.
			// Wait until the goroutine count has been stable for a while (those
			// left are blocked for good).
			vs.WaitNative(300 * time.Millisecond)
			prev, stable := runtime.NumGoroutine(), 0
			for i := 0; i < 400 && stable < 10; i++ {
				time.Sleep(5 * time.Millisecond)
				runtime.Gosched()
				if n := runtime.NumGoroutine(); n == prev {
					stable++
				} else {
					prev, stable = n, 0
				}
			}
		}
		explored := map[string]int{}
		deadlocks := 0
		ex := &vs.Explorer{Cfg: vs.Config{FreeTimers: true, MaxFires: 2, MaxSteps: 500}, Bound: 3, Prune: false,
			New: func() *vs.Exec {
				r := &result{}
				return &vs.Exec{Main: func() { p.body(r) }, Check: func(out *vs.Outcome) ([]string, uint64) {
					explored[r.String()]++
					return nil, 0
				}}
			}}
		for _, v := range ex.Explore() {
			fmt.Printf("FAIL %s: %s: %s\n", p.name, v.Kind, v.Msg)
			deadlocks++
			fail = true
		}
		total += ex.Stats.Executions
		keys := func(m map[string]int) []string {
			var k []string
			for x := range m {
				k = append(k, x)
			}
			sort.Strings(k)
			return k
		}
		for o := range native {
			if explored[o] == 0 {
				fmt.Printf("FAIL %s: outcome %q observed natively but never explored\n", p.name, o)
				fail = true
			}
		}
		for _, o := range p.impossible {
			if explored[o] > 0 {
				fmt.Printf("FAIL %s: impossible outcome %q explored\n", p.name, o)
				fail = true
			}
		}
		if p.exact != nil && strings.Join(keys(explored), "|") != strings.Join(p.exact, "|") {
			fmt.Printf("FAIL %s: explored outcomes %v, expected exactly %v\n", p.name, keys(explored), p.exact)
			fail = true
		}
		// pruning must not lose outcomes
		pruned := map[string]int{}
		ex2 := &vs.Explorer{Cfg: ex.Cfg, Bound: 3, Prune: true, New: func() *vs.Exec {
			r := &result{}
			return &vs.Exec{Main: func() { p.body(r) }, Check: func(out *vs.Outcome) ([]string, uint64) { pruned[r.String()]++; return nil, 0 }}
		}}
		ex2.Explore()
		if strings.Join(keys(pruned), "|") != strings.Join(keys(explored), "|") {
			fmt.Printf("FAIL %s: with fingerprint pruning the outcome set is %v, without %v\n", p.name, keys(pruned), keys(explored))
			fail = true
		}
		fmt.Printf("ok   %-38s executions=%d (pruned search: %d) explored=%v native=%v\n", p.name, ex.Stats.Executions, ex2.Stats.Executions, keys(explored), keys(native))
	}
	// detectors: programs on which the explorer must raise exactly this kind of alarm
	for _, d := range []struct {
		name, kind string
		body       func()
	}{
		{"deadlock-is-reported", "deadlock", func() {
			ch := make(chan int)
			vs.Go(func() { vs.Recv(ch) })
		}},
		{"livelock-is-reported", "stepcap", func() {
			// a polling loop that never makes progress: every iteration is a scheduling point
			done := make(chan struct{})
			vs.Go(func() {
				for {
					if vs.Select(true, vs.RecvCase(done)) == 0 {
						return
					}
					vs.Gosched()
				}
			})
		}},
		{"lock-order-deadlock-needs-a-preemption", "deadlock", func() {
			var a, b vsync.Mutex
			var wg vsync.WaitGroup
			wg.Add(2)
			vs.Go(func() { defer wg.Done(); a.Lock(); b.Lock(); b.Unlock(); a.Unlock() })
			vs.Go(func() { defer wg.Done(); b.Lock(); a.Lock(); a.Unlock(); b.Unlock() })
			wg.Wait()
		}},
	} {
		ex := &vs.Explorer{Cfg: vs.Config{MaxSteps: 500}, Bound: 2, Prune: true,
			New: func() *vs.Exec { return &vs.Exec{Main: d.body} }}
		got := map[string]int{}
		for _, v := range ex.Explore() {
			got[v.Kind]++
		}
		if got[d.kind] == 0 || len(got) != 1 {
			fmt.Printf("FAIL %s: expected only %q alarms, got %v\n", d.name, d.kind, got)
			fail = true
		} else {
			fmt.Printf("ok   %-38s executions=%d alarms=%v\n", d.name, ex.Stats.Executions, got)
		}
		total += ex.Stats.Executions
	}
	if fail {
		os.Exit(1)
	}
	fmt.Printf("vsconf: %d programs, %d executions, all conform\n", len(programs()), total)
}
