package main

import "fmt"

var plans = map[string]func(tier string) []Unit{
	"C01": func(t string) []Unit { return roundtripPlan("traces", t) },
	"C02": func(t string) []Unit { return roundtripPlan("logs", t) },
	"C03": func(t string) []Unit { return roundtripPlan("metrics", t) },
	"C04": optionsPlan,
	"C08": nopanicPlan,
	"C12": framingPlan,
	"C13": dictPlan,
	"C15": allocPlan,
}

func numItems(sig string) int {
	switch sig {
	case "traces":
		return NumSpan
	case "logs":
		return NumLog
	}
	return NumMetric
}

func rtMon() Monitors { return Monitors{Roundtrip: true, NoPanic: true} }

// multisets of size 1 and 2 over 0..n-1
func multisets2(n int) [][]int {
	var out [][]int
	for a := 0; a < n; a++ {
		out = append(out, []int{a})
	}
	for a := 0; a < n; a++ {
		for b := a; b < n; b++ {
			out = append(out, []int{a, b})
		}
	}
	return out
}

// reduced item pairs for the container-layout product
func pairSet(sig string, thorough bool) [][2]int {
	switch sig {
	case "traces":
		p := [][2]int{{0, 12}, {8, 16}}
		if thorough {
			p = append(p, [2]int{19, 20}, [2]int{13, 14})
		}
		return p
	case "logs":
		p := [][2]int{{1, 15}, {0, 19}}
		if thorough {
			p = append(p, [2]int{3, 21}, [2]int{11, 17})
		}
		return p
	}
	p := [][2]int{{6, 16}, {12, 27}}
	if thorough {
		p = append(p, [2]int{23, 31}, [2]int{3, 36})
	}
	return p
}

// historyAlphabet: letters chosen so that each one moves the stream through a
// different schema-evolution transition (DESIGN.md appendix C).
func historyAlphabet(sig string, thorough bool) []Letter {
	var ls []Letter
	add := func(l Letter) { ls = append(ls, l) }
	switch sig {
	case "traces":
		add(one(sig, 0, 0, 0))                    // mandatory only
		add(one(sig, 1, 1, 1))                    // all optional scalars
		add(one(sig, 1, 1, 8))                    // attrs of each type
		add(Letter{Sig: sig, Groups: []Group{{R: 1, Scopes: []Scope{{S: 1, Items: []int{8, 12}}}}, {R: 2, Scopes: []Scope{{S: 1, Items: []int{12}}}}}}) // confusable resources, equal attrs
		add(Letter{Sig: sig, Groups: []Group{{R: 1, Scopes: []Scope{{S: 1, Items: []int{0}}}}, {R: 3, Scopes: []Scope{{S: 1, Items: []int{1}}}}}}) // same scope under two resources
		add(one(sig, 5, 6, 16, 17))               // events: equal names across spans, schema urls
		add(one(sig, 6, 7, 19, 20))               // links: equal trace ids across spans
		add(one(sig, 0, 0, 11, 10))               // nested / normalisations
		add(one(sig, 1, 1, 0, 0, 0))              // three identical spans
		add(one(sig, 0, 0, 9))                    // zero-valued attrs (nulls in existing columns)
		add(one(sig, 7, 5, 21, 15, 18))           // everything, events with "" name, zero link
		add(Letter{Sig: sig, Ramp: &Ramp{Kind: "names", N: 130, Uses: 1, Base: 0}})
		add(one(sig, 1, 1, 26, 26, 26))      // uniform groups: stale encoder state between batches shows up when repeated
		add(one(sig, 1, 1, 0, 12, 0, 8, 23)) // records without and with related data mixed (null ids between ids)
		add(one(sig, 9, 8, 27))              // every attribute of every map is dropped by the encoder
		if thorough {
			add(Letter{Sig: sig, Ramp: &Ramp{Kind: "names", N: 130, Uses: 5, Base: 1000}})
			add(Letter{Sig: sig, Ramp: &Ramp{Kind: "attrs", N: 130, Uses: 1, Base: 2000}})
			add(one(sig, 8, 3, 13, 14))
			add(one(sig, 4, 4, 22, 23))
		}
	case "logs":
		add(one(sig, 0, 0, 0))
		add(one(sig, 1, 1, 1))
		add(one(sig, 1, 1, 15))
		add(Letter{Sig: sig, Groups: []Group{{R: 1, Scopes: []Scope{{S: 1, Items: []int{15, 19}}}}, {R: 2, Scopes: []Scope{{S: 1, Items: []int{19}}}}}})
		add(Letter{Sig: sig, Groups: []Group{{R: 1, Scopes: []Scope{{S: 1, Items: []int{1}}, {S: 5, Items: []int{3}}}}, {R: 3, Scopes: []Scope{{S: 1, Items: []int{5}}}}}})
		add(Letter{Sig: sig, Groups: []Group{{R: 1, Scopes: []Scope{{S: 5, Items: []int{2}}}}, {R: 3, Scopes: []Scope{{S: 1, Items: []int{7}}, {S: 5, Items: []int{9}}}}, {R: 1, Scopes: []Scope{{S: 1, Items: []int{4}}}}}})
		add(one(sig, 5, 6, 3, 5, 7, 9)) // body of int, double, bool, bytes
		add(one(sig, 6, 7, 11, 12))    // nested bodies
		add(one(sig, 0, 0, 4, 6, 8, 10, 13, 14)) // zero-valued bodies of each type
		add(one(sig, 0, 0, 17, 18))
		add(one(sig, 7, 5, 20, 21, 16))
		add(Letter{Sig: sig, Ramp: &Ramp{Kind: "bodies", N: 130, Uses: 1, Base: 0}})
		add(one(sig, 1, 1, 22, 22, 22))
		add(one(sig, 1, 1, 0, 19, 2, 15, 23))
		add(one(sig, 9, 8, 24))
		if thorough {
			add(Letter{Sig: sig, Ramp: &Ramp{Kind: "bodies", N: 130, Uses: 5, Base: 1000}})
			add(Letter{Sig: sig, Ramp: &Ramp{Kind: "attrs", N: 130, Uses: 1, Base: 2000}})
			add(one(sig, 8, 3, 2, 2))
			add(one(sig, 4, 4, 1, 1, 15))
		}
	case "metrics":
		add(one(sig, 0, 0, 0))
		add(one(sig, 1, 1, 1, 6))
		add(one(sig, 1, 1, 8, 9, 7))
		add(one(sig, 0, 0, 14))      // first bucket list all zero
		add(one(sig, 0, 0, 16))      // non-zero buckets, sum/min/max
		add(one(sig, 0, 0, 17, 24))  // present-but-zero sum/min/max
		add(one(sig, 5, 6, 21, 22, 23))
		add(one(sig, 6, 7, 25, 26, 27, 29))
		add(one(sig, 1, 1, 11, 12, 31, 32)) // exemplars
		add(Letter{Sig: sig, Groups: []Group{{R: 1, Scopes: []Scope{{S: 1, Items: []int{6}}}}, {R: 2, Scopes: []Scope{{S: 1, Items: []int{3}}}}, {R: 3, Scopes: []Scope{{S: 1, Items: []int{4, 5}}}}}})
		add(one(sig, 7, 5, 2, 10, 13, 20, 28, 30))
		add(Letter{Sig: sig, Ramp: &Ramp{Kind: "names", N: 130, Uses: 1, Base: 0}})
		add(one(sig, 1, 1, 40, 41, 40))
		add(one(sig, 1, 1, 42, 43, 44))
		add(one(sig, 1, 1, 47, 48, 49, 50)) // exp-histogram twin of 41, NaN and signed-zero exemplars, unordered quantiles
		add(one(sig, 9, 8, 45))
		if thorough {
			add(Letter{Sig: sig, Ramp: &Ramp{Kind: "attrs", N: 130, Uses: 1, Base: 2000}})
			add(Letter{Sig: sig, Ramp: &Ramp{Kind: "units", N: 130, Uses: 1, Base: 3000}})
			add(one(sig, 8, 3, 33, 34, 35, 36))
			add(one(sig, 4, 4, 37, 38, 39, 18, 19, 15))
		}
	}
	return ls
}

func histories(alpha []Letter, depth int) [][]Letter {
	var out [][]Letter
	var rec func(prefix []Letter)
	rec = func(prefix []Letter) {
		if len(prefix) == depth {
			out = append(out, fixRamps(prefix))
			return
		}
		for _, l := range alpha {
			rec(append(prefix, l))
		}
	}
	rec(nil)
	return out
}

// fixRamps copies a history, giving every ramp letter a base that depends on
// its position so that successive ramps introduce fresh values.
func fixRamps(h []Letter) []Letter {
	out := make([]Letter, len(h))
	for i, l := range h {
		if l.Ramp != nil {
			r := *l.Ramp
			r.Base += (i + 1) * 100000
			l.Ramp = &r
		}
		out[i] = l
	}
	return out
}

func roundtripPlan(sig, tier string) []Unit {
	thorough := tier == "thorough"
	var units []Unit
	mon := rtMon()
	def := DefaultOptions()
	n := numItems(sig)
	// P1: every resource x scope x multiset of <= 2 items, fresh stream each
	// (every container pair x every single archetype; a reduced container set x every multiset of 2)
	ms := multisets2(n)
	for r := 0; r < NumRes; r++ {
		for s := 0; s < NumScope; s++ {
			reduced := (r == 0 || r == 1 || r == 5) && (s == 0 || s == 1 || s == 6)
			for _, items := range ms {
				if len(items) == 2 && !(reduced || thorough && (r+s)%3 == 0) {
					continue
				}
				units = append(units, Unit{Opts: def, Mon: mon, Tag: "P1", History: []Letter{one(sig, r, s, items...)}})
			}
		}
	}
	// P2: container layouts: pairs of resources x pairs of scopes x 4 layouts x item pairs
	for r1 := 0; r1 < NumRes; r1++ {
		for r2 := 0; r2 < NumRes; r2++ {
			for s1 := 0; s1 < NumScope; s1++ {
				for s2 := 0; s2 < NumScope; s2++ {
					for _, p := range pairSet(sig, thorough) {
						a, b := []int{p[0]}, []int{p[1]}
						layouts := [][]Group{
							{{R: r1, Scopes: []Scope{{S: s1, Items: a}}}, {R: r2, Scopes: []Scope{{S: s2, Items: b}}}},
							{{R: r1, Scopes: []Scope{{S: s1, Items: a}, {S: s2, Items: b}}}},
							{{R: r1, Scopes: []Scope{{S: s1, Items: a}}}, {R: r2, Scopes: []Scope{{S: s1, Items: b}}}},
							{{R: r1, Scopes: []Scope{{S: s1, Items: a}}}, {R: r2, Scopes: []Scope{{S: s2, Items: b}}}, {R: r1, Scopes: []Scope{{S: s1, Items: b}}}},
						}
						for li, g := range layouts {
							if li == 1 && r2 != 0 {
								continue // layout 1 ignores r2
							}
							if li == 2 && s2 != 0 {
								continue // layout 2 ignores s2
							}
							units = append(units, Unit{Opts: def, Mon: mon, Tag: "P2", History: []Letter{{Sig: sig, Groups: g}}})
						}
					}
				}
			}
		}
	}
	// history layer
	alpha := historyAlphabet(sig, thorough)
	depth := 3
	if thorough {
		depth = 4
		if len(alpha) > 14 {
			depth = 3
		}
	}
	for _, h := range histories(alpha, depth) {
		units = append(units, Unit{Opts: def, Mon: mon, Tag: fmt.Sprintf("H%d", depth), History: h})
	}
	if thorough {
		// deeper histories over the core of the alphabet
		for _, h := range histories(alpha[:9], 4) {
			units = append(units, Unit{Opts: def, Mon: mon, Tag: "H4core", History: h})
		}
		// P1 again on warm streams: after each of a few warm-up histories
		warm := [][]Letter{{alpha[1], alpha[2]}, {alpha[5], alpha[6], alpha[10]}, {alpha[11]}}
		for _, w := range warm {
			for r := 0; r < NumRes; r += 2 {
				for _, items := range ms {
					units = append(units, Unit{Opts: def, Mon: mon, Tag: "P1warm", History: append(append([]Letter{}, w...), one(sig, r, 1, items...))})
				}
			}
		}
	}
	// pipelined: every batch is produced before any is decoded (a BatchArrowRecords must stay valid)
	for _, h := range histories(alpha, 2) {
		units = append(units, Unit{Opts: def, Mon: mon, Tag: "H2pipelined", History: h, Pipelined: true})
	}
	for _, h := range histories(alpha[:6], 3) {
		units = append(units, Unit{Opts: def, Mon: mon, Tag: "H3pipelined", History: h, Pipelined: true})
	}
	// a refused (oversized) batch must not leak into the following ones
	for _, big := range []Big{{Kind: "resources", N: 65537}, {Kind: "items", N: 65537}, {Kind: "scopes", N: 65537}} {
		b := big
		units = append(units, Unit{Opts: def, Mon: mon, Tag: "after-refusal", History: []Letter{alpha[2], {Sig: sig, Big: &b}, alpha[2], alpha[5]}})
	}
	// the three signals interleaved on one producer/consumer pair (resource and
	// scope attribute payload types are shared between them); histories that
	// contain at least one batch of this signal
	{
		var mixed []Letter
		for _, sg := range sigs() {
			a := historyAlphabet(sg, false)
			mixed = append(mixed, a[1], a[2], a[5])
		}
		for _, h := range histories(mixed, 3) {
			has := false
			for _, l := range h {
				has = has || l.Sig == sig
			}
			if has {
				units = append(units, Unit{Opts: def, Mon: mon, Tag: "mixed-signals", History: h})
			}
		}
		for _, h := range sharedAttrHistories() {
			if h[0].Sig == sig || h[1].Sig == sig {
				units = append(units, Unit{Opts: def, Mon: mon, Tag: "mixed-shared-attrs", History: h})
			}
		}
	}
	{
		other := map[string]string{"traces": "logs", "logs": "metrics", "metrics": "traces"}[sig]
		units = append(units, Unit{Opts: def, Mon: mon, Tag: "long-evictions", History: longEvictionHistory(sig, other, 20)})
	}
	for _, h := range emptyRequestHistories(sig) {
		units = append(units, Unit{Opts: def, Mon: mon, Tag: "empty-requests", History: h})
	}
	for _, h := range idleGapHistories(sig, thorough) {
		units = append(units, Unit{Opts: def, Mon: mon, Tag: "idle-gap", History: h})
	}
	{
		st := def
		st.Stats = "ratio"
		for _, h := range histories(alpha[:8], 2) {
			units = append(units, Unit{Opts: st, Mon: mon, Tag: "stats-option", History: append(append([]Letter{}, h...), h[0], h[1])})
		}
	}
	// the largest in-domain batches (65,535 parents of each kind), as the first batch of a
	// stream (always rebuilt at least once) and as a later batch that adds a column
	for _, k := range []string{"items", "resources", "scopes"} {
		big := Letter{Sig: sig, Big: &Big{Kind: k, N: 65535}}
		units = append(units, Unit{Opts: def, Mon: mon, Tag: "idwidth-in-domain", History: []Letter{big, alpha[1]}},
			Unit{Opts: def, Mon: mon, Tag: "idwidth-in-domain", History: []Letter{alpha[0], big, alpha[2]}})
	}
	// more sub-items (32-bit ids: events, links, data points of each kind, their attributes and
	// exemplars) in one batch than 16 bits can count
	for _, k := range subItemKinds(sig) {
		big := Letter{Sig: sig, Big: &Big{Kind: k, N: 70001}}
		units = append(units, Unit{Opts: def, Mon: mon, Tag: "sub-items-beyond-16-bits", History: []Letter{big, alpha[1]}},
			Unit{Opts: def, Mon: mon, Tag: "sub-items-beyond-16-bits", History: []Letter{alpha[10], big}})
	}
	// one attribute record gaining one value type per batch (many schema updates over its life)
	for _, lv := range []string{"item", "resource", "scope", "sub"} {
		for _, step := range []int{1, 5} {
			var h []Letter
			for k := 0; k < 12; k++ {
				h = append(h, Letter{Sig: sig, Mix: &Mix{Level: lv, Rot: (k * step) % NumMixValues, N: 1}})
			}
			units = append(units, Unit{Opts: def, Mon: mon, Tag: "type-by-type", History: h})
			var acc []Letter
			for k := 0; k < 14; k++ {
				acc = append(acc, Letter{Sig: sig, Mix: &Mix{Level: lv, Rot: step, N: k + 1}})
			}
			units = append(units, Unit{Opts: def, Mon: mon, Tag: "type-by-type", History: acc})
		}
	}
	// one key, a different value type under each parent
	{
		ml := mixLetters(sig, 1)
		for i, l := range ml {
			units = append(units, Unit{Opts: def, Mon: mon, Tag: "typemix", History: []Letter{l, ml[(i+5)%len(ml)]}})
		}
	}
	// a long stream of large batches on one default consumer: the Arrow memory it
	// obtained over the stream is several times its 70 MiB limit, so memory that is
	// not given back after a batch ends in the refusal of a valid batch
	{
		var h []Letter
		for _, l := range rampLetters(sig, 30000) {
			if l.Ramp.Uses == 1 && len(h) < 120 {
				for i := 0; i < 60; i++ {
					h = append(h, l)
				}
			}
		}
		units = append(units, Unit{Opts: def, Mon: mon, Tag: "long-large", History: fixRamps(h)})
	}
	// u8 dictionaries: every column crosses 255 within a few ramps
	u8 := def
	u8.Dict = "u8"
	for _, thr := range []float64{0, 0.3, 1e18} {
		o := u8
		o.Reset = thr
		u8alpha := []Letter{alpha[9], alpha[10], alpha[11], alpha[12]}
		for _, h := range histories(u8alpha, 3) {
			units = append(units, Unit{Opts: o, Mon: mon, Tag: "H3u8", History: h})
		}
		// a larger batch containing every value seen so far; all attribute
		// columns of one record crossing the index width together
		for _, h := range prefixRampHistories(sig, 100, 300) {
			units = append(units, Unit{Opts: o, Mon: mon, Tag: "prefixramp-u8", History: h})
		}
		for _, h := range allAttrsHistories(sig, 300) {
			units = append(units, Unit{Opts: o, Mon: mon, Tag: "allattrs-u8", History: h})
		}
	}
	return units
}


func sigs() []string { return []string{"traces", "logs", "metrics"} }

// letters with >= 3 attribute-bearing parents whose attributes, event names and
// link trace ids form equal-value groups with non-consecutive parent ids.
func groupLetters(sig string) []Letter {
	switch sig {
	case "traces":
		return []Letter{
			one(sig, 1, 1, 8, 0, 12, 5, 12, 17, 20, 16, 19),
			one(sig, 1, 1, 12, 1, 8, 21, 12, 13, 14),
			one(sig, 3, 5, 17, 16, 0, 17, 20, 19, 20),
			one(sig, 0, 0, 12, 12, 12),
			one(sig, 0, 0, 14, 24, 14, 25, 24, 14, 25),
		}
	case "logs":
		return []Letter{
			one(sig, 1, 1, 15, 0, 19, 1, 19, 15, 21),
			one(sig, 1, 1, 19, 2, 15, 16, 19),
			one(sig, 3, 5, 19, 19, 0, 19),
			one(sig, 0, 0, 22, 22, 0, 22),
		}
	}
	return []Letter{
		one(sig, 1, 1, 6, 3, 16, 6, 23, 27, 36),
		one(sig, 1, 1, 11, 12, 6, 31, 32, 16),
		one(sig, 3, 5, 6, 6, 0, 6),
		one(sig, 0, 0, 40, 41, 40, 41),
	}
}

func rampLetters(sig string, n int) []Letter {
	switch sig {
	case "traces":
		return []Letter{
			{Sig: sig, Ramp: &Ramp{Kind: "names", N: n, Uses: 1}},
			{Sig: sig, Ramp: &Ramp{Kind: "names", N: n, Uses: 5}},
			{Sig: sig, Ramp: &Ramp{Kind: "attrs", N: n, Uses: 1}},
			{Sig: sig, Ramp: &Ramp{Kind: "attrs", N: n, Uses: 4}},
			{Sig: sig, Ramp: &Ramp{Kind: "events", N: n, Uses: 2}},
		}
	case "logs":
		return []Letter{
			{Sig: sig, Ramp: &Ramp{Kind: "bodies", N: n, Uses: 1}},
			{Sig: sig, Ramp: &Ramp{Kind: "bodies", N: n, Uses: 5}},
			{Sig: sig, Ramp: &Ramp{Kind: "attrs", N: n, Uses: 1}},
			{Sig: sig, Ramp: &Ramp{Kind: "attrs", N: n, Uses: 4}},
			{Sig: sig, Ramp: &Ramp{Kind: "names", N: n, Uses: 2}},
		}
	}
	return []Letter{
		{Sig: sig, Ramp: &Ramp{Kind: "names", N: n, Uses: 1}},
		{Sig: sig, Ramp: &Ramp{Kind: "names", N: n, Uses: 5}},
		{Sig: sig, Ramp: &Ramp{Kind: "attrs", N: n, Uses: 1}},
		{Sig: sig, Ramp: &Ramp{Kind: "attrs", N: n, Uses: 4}},
		{Sig: sig, Ramp: &Ramp{Kind: "units", N: n, Uses: 2}},
	}
}

// prefixRampHistories: every batch draws its values from the same sequence
// (base fixed), so a later, larger batch contains every value seen so far --
// the shape under which a record rebuilt after a dictionary reset has exactly
// the cardinality that triggered the reset. The uses=5 prefix makes the
// history high-reuse (reset regime), the uses=1 prefix low-reuse (overflow).
func prefixRampHistories(sig string, small, large int) [][]Letter {
	var out [][]Letter
	for _, l := range rampLetters(sig, small) {
		if l.Ramp.Uses != 1 {
			continue
		}
		mk := func(n, uses int) Letter {
			return Letter{Sig: sig, Ramp: &Ramp{Kind: l.Ramp.Kind, N: n, Uses: uses, Base: 7000}}
		}
		out = append(out,
			[]Letter{mk(small, 1), mk(large, 1), mk(small, 1)},
			[]Letter{mk(small, 5), mk(small, 5), mk(large, 1), mk(small, 1)},
			[]Letter{mk(small, 5), mk(small, 5), mk(large, 1), mk(large+1, 1), mk(large, 1)},
			[]Letter{mk(large, 1), mk(large, 1), mk(small, 1)})
	}
	return out
}

// allAttrsHistories: batches in which every dictionary column of an attribute
// record (16-bit and 32-bit parent ids) crosses the index width together.
func allAttrsHistories(sig string, n int) [][]Letter {
	var out [][]Letter
	for _, k := range []string{"allattrs", "allattrs32"} {
		mk := func(n, uses, base int) Letter {
			return Letter{Sig: sig, Ramp: &Ramp{Kind: k, N: n, Uses: uses, Base: base}}
		}
		out = append(out,
			[]Letter{mk(n, 1, 0), mk(n, 1, 0)},
			[]Letter{mk(n/3, 1, 0), mk(n, 1, 0), mk(n/3, 1, 0)},
			[]Letter{mk(n/3, 4, 0), mk(n/3, 4, 0), mk(n, 1, 0), mk(n, 1, 5000)})
	}
	return out
}

// initConfigs: every With*InitDictIndex option crossed with the limits it could disturb, in both orders.
func initConfigs() []Options {
	var out []Options
	for _, d := range []string{"none", "u8", ""} {
		for _, in := range []string{"u8", "u16", "u32", "u64"} {
			for _, after := range []bool{false, true} {
				o := DefaultOptions()
				o.Dict, o.Init, o.InitAfter = d, in, after
				out = append(out, o)
			}
		}
	}
	return out
}

// mixLetters: one attribute key whose value type changes from parent to parent, every rotation, every level.
func mixLetters(sig string, rotStep int) []Letter {
	var out []Letter
	for _, lv := range []string{"item", "resource", "scope", "sub"} {
		for r := 0; r < NumMixValues; r += rotStep {
			out = append(out, Letter{Sig: sig, Mix: &Mix{Level: lv, Rot: r}})
		}
	}
	return out
}

// sharedAttrHistories: two signals alternate on one producer while their
// resource (and scope) attributes need different schemas: the shared
// RESOURCE_ATTRS / SCOPE_ATTRS payload types go schema A -> B -> A -> B.
func sharedAttrHistories() [][]Letter {
	var out [][]Letter
	res := []int{1, 2, 7, 10, 11}
	for _, x := range sigs() {
		for _, y := range sigs() {
			if x == y {
				continue
			}
			for i, r1 := range res {
				r2 := res[(i+1)%len(res)]
				out = append(out, []Letter{one(x, r1, 1, 1), one(y, r2, 1, 1), one(x, r1, 1, 1), one(y, r2, 1, 1), one(x, r2, 1, 1)})
				// scope attributes too (scope archetype 5 carries a string attribute)
				out = append(out, []Letter{one(x, r1, 5, 1), one(y, r2, 1, 1), one(x, r1, 5, 1), one(y, 0, 5, 1), one(x, r2, 1, 1)})
			}
		}
	}
	return out
}

// longEvictionHistory: two signals alternate with large, differently typed
// resource attributes, so the consumer replaces its RESOURCE_ATTRS reader (a
// record of several MB) on every batch: over the stream it obtains several times
// the default 70 MiB, which it can only do if it gives replaced readers back.
func longEvictionHistory(x, y string, rounds int) []Letter {
	var h []Letter
	for i := 0; i < rounds; i++ {
		h = append(h, Letter{Sig: x, Big: &Big{Kind: "resattrs", N: 20000}}, Letter{Sig: y, Big: &Big{Kind: "resattrs", N: 20000}})
	}
	return h
}

// idleGapHistories: a sub-stream (events, links, attribute tables, data point tables of one
// kind, exemplars) is opened, then unused for `gap` consecutive batches, then used again with
// the same schema, then once more.  Every gap length 1..36 and the lengths around 64, 100, 128 and 256 (quick);
// every gap up to 300 (thorough).  Producer and consumer keep per-sub-stream state (IPC
// writer/reader, dictionaries) that must survive any idle period, on both sides alike.
func idleGaps(thorough bool) []int {
	var gaps []int
	top := 72
	if thorough {
		top = 300
	}
	if !thorough {
		top = 36
	}
	for g := 1; g <= top; g++ {
		gaps = append(gaps, g)
	}
	if !thorough {
		// around the thresholds an implementation would plausibly pick
		gaps = append(gaps, 63, 64, 65, 100, 128, 129, 256, 257)
	}
	return gaps
}

func idleGapHistories(sig string, thorough bool) [][]Letter {
	a := historyAlphabet(sig, false)
	plain := a[0]
	var out [][]Letter
	for gi, g := range idleGaps(thorough) {
		// the rich letter alternates so that both are met at every few gap lengths
		rich := []Letter{a[10], a[2], a[5], a[6]}[gi%4]
		h := []Letter{rich}
		for i := 0; i < g; i++ {
			h = append(h, plain)
		}
		h = append(h, rich, plain, a[10])
		out = append(out, h)
	}
	return out
}

func subItemKinds(sig string) []string {
	switch sig {
	case "traces":
		return []string{"sub-events", "sub-links"}
	case "metrics":
		return []string{"sub-gauge", "sub-sum", "sub-hist", "sub-ehist", "sub-summary"}
	}
	return nil
}

// emptyRequestHistories: requests without any record (no resource at all, a
// resource without scopes, a scope without records) before, between and after
// ordinary batches.
func emptyRequestHistories(sig string) [][]Letter {
	a := historyAlphabet(sig, false)
	e0 := Letter{Sig: sig, Name: sig + ":empty"}
	e1 := Letter{Sig: sig, Groups: []Group{{R: 1}}}
	e2 := one(sig, 1, 1)
	var out [][]Letter
	for _, x := range a[:6] {
		for _, e := range []Letter{e0, e1, e2} {
			out = append(out, []Letter{x, e, x}, []Letter{e, x, e, x}, []Letter{x, e, e, a[1]})
		}
	}
	out = append(out, []Letter{e0}, []Letter{e1}, []Letter{e2}, []Letter{e0, e1, e2, e0})
	// holes: a resource without scopes, a resource whose only scope is empty, or an empty scope,
	// in first, middle and last position among containers that do hold records
	it := func(k int) []int { return []int{k % 3} }
	full := func(r, k int) Group { return Group{R: r, Scopes: []Scope{{S: 1, Items: it(k)}}} }
	for _, hole := range []Group{{R: 2}, {R: 2, Scopes: []Scope{{S: 2}}}, {R: 2, Scopes: []Scope{{S: 2}, {S: 3}}}} {
		for pos := 0; pos < 3; pos++ {
			gs := []Group{full(1, 0), full(3, 1)}
			gs = append(gs[:pos], append([]Group{hole}, gs[pos:]...)...)
			l := Letter{Sig: sig, Groups: gs}
			out = append(out, []Letter{l}, []Letter{a[1], l, a[2]}, []Letter{l, l})
		}
	}
	for pos := 0; pos < 3; pos++ {
		scs := []Scope{{S: 1, Items: it(0)}, {S: 3, Items: it(1)}}
		scs = append(scs[:pos], append([]Scope{{S: 2}}, scs[pos:]...)...)
		l := Letter{Sig: sig, Groups: []Group{{R: 1, Scopes: scs}, {R: 2, Scopes: scs}}}
		out = append(out, []Letter{l}, []Letter{a[1], l, a[2]}, []Letter{l, l})
	}
	return out
}

func dictConfigs() []Options {
	var out []Options
	for _, d := range []string{"none", "u8", "u16", "u32", "u64"} {
		for _, thr := range []float64{0, 0.3, 1, 1e18} {
			for _, z := range []int{0, 1} {
				o := DefaultOptions()
				o.Dict, o.Reset, o.Zstd = d, thr, z
				out = append(out, o)
			}
		}
	}
	return out
}

// rampHistories: sequences of ramps (fresh values at every position) mixed
// with a high-reuse batch, so u8-limited columns cross 255 in the overflow
// and in the reset regime.
func rampHistories(sig string, n, depth int, thorough bool) [][]Letter {
	var rl []Letter
	for _, l := range rampLetters(sig, n) {
		if l.Ramp.N*l.Ramp.Uses <= 65000 { // stay within the 16-bit id width (domain of the round trip)
			rl = append(rl, l)
		}
	}
	reuse := groupLetters(sig)[0]
	alpha := append(append([]Letter{}, rl...), reuse)
	if !thorough {
		// quick: every ramp kind repeated, plus pairs mixing low and high reuse
		var out [][]Letter
		for _, l := range rl {
			h := make([]Letter, depth)
			for i := range h {
				h[i] = l
			}
			out = append(out, fixRamps(h))
		}
		for i := 0; i+1 < len(rl); i += 2 {
			out = append(out, fixRamps([]Letter{rl[i], rl[i+1], rl[i], reuse, rl[i+1]}))
			out = append(out, fixRamps([]Letter{rl[i+1], rl[i+1], reuse, rl[i], rl[i+1], rl[i+1]}))
		}
		return out
	}
	return histories(alpha, depth)
}

func optionsPlan(tier string) []Unit {
	thorough := tier == "thorough"
	var units []Unit
	mon := rtMon()
	mon.RtProp = "C04"
	// (i) the full product of the public options over grouping histories (traces)
	gl := groupLetters("traces")
	var hs [][]Letter
	hs = append(hs, []Letter{gl[0], gl[1]}, []Letter{gl[1], gl[0]}, []Letter{gl[2], gl[4]}, []Letter{gl[3], gl[4], gl[1]})
	if thorough {
		hs = append(hs, histories(gl, 2)...)
		hs = append(hs, []Letter{gl[0], gl[1], gl[2], gl[3]}, []Letter{gl[3], gl[3], gl[0], gl[0]})
	}
	for _, d := range []string{"none", "u8", "", "u32", "u64"} {
		for _, thr := range []float64{0, 0.3, 1, 1e18} {
			for _, z := range []int{0, 1} {
				for sp := 0; sp < 7; sp++ {
					for a16 := 0; a16 < 4; a16++ {
						for a32 := 0; a32 < 5; a32++ {
							o := Options{Dict: d, Reset: thr, Zstd: z, Span: sp, Attrs16: a16, Attrs32: a32}
							for _, h := range hs {
								units = append(units, Unit{Opts: o, Mon: mon, Tag: "optproduct", History: h})
							}
						}
					}
				}
			}
		}
	}
	// logs and metrics use the attribute orderings too
	for _, sig := range []string{"logs", "metrics"} {
		g := groupLetters(sig)
		for a16 := 0; a16 < 4; a16++ {
			for a32 := 0; a32 < 5; a32++ {
				for _, d := range []string{"", "u8", "none"} {
					o := DefaultOptions()
					o.Dict, o.Attrs16, o.Attrs32 = d, a16, a32
					units = append(units, Unit{Opts: o, Mon: mon, Tag: "optattrs-" + sig, History: []Letter{g[0], g[1]}},
						Unit{Opts: o, Mon: mon, Tag: "optattrs-" + sig, History: []Letter{g[2], g[3], g[0]}})
				}
			}
		}
	}
	// batches produced ahead of decoding (a transport queue between producer and consumer), and
	// the history alphabet of every signal, under a reduced option product
	for _, sig := range sigs() {
		alpha := historyAlphabet(sig, false)
		var oset []Options
		for _, d := range []string{"none", "u8", ""} {
			for _, z := range []int{0, 1} {
				o := DefaultOptions()
				o.Dict, o.Zstd = d, z
				oset = append(oset, o)
			}
		}
		for _, ord := range [][3]int{{1, 1, 1}, {3, 2, 3}, {6, 3, 4}} {
			o := DefaultOptions()
			o.Span, o.Attrs16, o.Attrs32 = ord[0], ord[1], ord[2]
			oset = append(oset, o)
		}
		for _, o := range oset {
			for _, h := range histories(alpha[:8], 2) {
				units = append(units, Unit{Opts: o, Mon: mon, Tag: "pipelined-" + sig, History: append(append([]Letter{}, h...), h[0], h[1]), Pipelined: true})
			}
			for i := range alpha {
				units = append(units, Unit{Opts: o, Mon: mon, Tag: "alphabet-" + sig, History: fixRamps([]Letter{alpha[i], alpha[(i+1)%len(alpha)], alpha[i]})})
			}
		}
	}
	// every attribute ordering over the type-mix letters (the sorters compare values of different types)
	for _, sig := range sigs() {
		ml := mixLetters(sig, 1)
		for a16 := 0; a16 < 4; a16++ {
			for a32 := 0; a32 < 5; a32++ {
				if a16 != 0 && a32 != 0 && a16 != a32 {
					continue // vary one ordering at a time, plus the diagonal
				}
				o := DefaultOptions()
				o.Attrs16, o.Attrs32 = a16, a32
				for i, l := range ml {
					units = append(units, Unit{Opts: o, Mon: mon, Tag: "typemix-" + sig, History: []Letter{l, ml[(i+3)%len(ml)]}})
				}
			}
		}
	}
	// (ii) dictionary regimes: ramps crossing 255 (u8), all signals
	for _, sig := range sigs() {
		depth := 4
		var cfgs []Options
		for _, o := range dictConfigs() {
			if !thorough && o.Dict != "u8" && o.Dict != "none" && !(o.Dict == "u16" && o.Reset == 0.3) {
				continue
			}
			cfgs = append(cfgs, o)
		}
		for _, o := range cfgs {
			for _, h := range rampHistories(sig, 130, depth, false) {
				units = append(units, Unit{Opts: o, Mon: mon, Tag: "ramp130-" + sig, History: h})
			}
			if thorough {
				for _, h := range rampHistories(sig, 100, 3, true) {
					units = append(units, Unit{Opts: o, Mon: mon, Tag: "ramp100x-" + sig, History: h})
				}
			}
			if o.Dict == "u8" || o.Dict == "none" || thorough {
				for _, h := range prefixRampHistories(sig, 100, 300) {
					units = append(units, Unit{Opts: o, Mon: mon, Tag: "prefixramp-" + sig, History: h})
				}
				for _, h := range allAttrsHistories(sig, 300) {
					units = append(units, Unit{Opts: o, Mon: mon, Tag: "allattrs-" + sig, History: h})
				}
			}
		}
		for _, o := range initConfigs() {
			for _, l := range rampLetters(sig, 300)[:2] {
				units = append(units, Unit{Opts: o, Mon: mon, Tag: "init-" + sig, History: fixRamps([]Letter{l, l})})
			}
		}
		// limits above 16 bits: a column crossing 65,535 widens its index to 32 bits in mid-stream
		for _, d := range []string{"u32", "u64"} {
			o := DefaultOptions()
			o.Dict = d
			l := rampLetters(sig, 30000)[0]
			units = append(units, Unit{Opts: o, Mon: mon, Tag: "widen32-" + sig, History: fixRamps([]Letter{l, l, l, l})})
		}
		if thorough {
			// cross 65,535 with the default (u16) limit in both regimes
			for _, thr := range []float64{0, 0.3, 1e18} {
				o := DefaultOptions()
				o.Reset = thr
				for _, h := range rampHistories(sig, 30000, 3, false) {
					units = append(units, Unit{Opts: o, Mon: mon, Tag: "ramp30k-" + sig, History: h})
				}
			}
		}
	}
	return units
}

func nopanicPlan(tier string) []Unit {
	thorough := tier == "thorough"
	var units []Unit
	mon := Monitors{NoPanic: true, OutOfDomain: true}
	def := DefaultOptions()
	for _, sig := range sigs() {
		n := numItems(sig)
		// every in-domain and wild archetype alone and in pairs with a wild one, fresh stream
		var items []int
		for i := 0; i < n; i++ {
			items = append(items, i)
		}
		for w := 0; w < NumWild; w++ {
			items = append(items, WildBase+w)
		}
		for _, a := range items {
			for _, r := range []int{0, 1, 5} {
				units = append(units, Unit{Opts: def, Mon: mon, Tag: "single", History: []Letter{one(sig, r, 1, a)}})
			}
			for w := 0; w < NumWild; w++ {
				units = append(units, Unit{Opts: def, Mon: mon, Tag: "pair", History: []Letter{one(sig, 1, 1, a, WildBase+w)}})
			}
		}
		// the statistics option together with the statistics call at any point of a short history;
		// one attribute record gaining a value type per batch (six and more schema updates over its life)
		{
			st := def
			st.Stats = "ratio"
			ha := historyAlphabet(sig, false)
			rs := Letter{Op: "resetstats"}
			for _, h := range histories(ha[:6], 2) {
				units = append(units, Unit{Opts: st, Mon: mon, Tag: "stats-option", History: []Letter{h[0], rs, h[1], rs, h[0]}},
					Unit{Opts: st, Mon: mon, Tag: "stats-option", History: []Letter{rs, h[0], h[1]}})
			}
			// one value type per batch, at each level, in two orders
			for _, lv := range []string{"item", "resource", "scope", "sub"} {
				for _, step := range []int{1, 5} {
					var h []Letter
					for k := 0; k < 12; k++ {
						h = append(h, Letter{Sig: sig, Mix: &Mix{Level: lv, Rot: (k * step) % NumMixValues, N: 1}})
					}
					units = append(units, Unit{Opts: def, Mon: mon, Tag: "type-by-type", History: h})
					// accumulating: batch k holds the first k+1 values of the rotation
					var acc []Letter
					for k := 0; k < 14; k++ {
						acc = append(acc, Letter{Sig: sig, Mix: &Mix{Level: lv, Rot: step, N: k + 1}})
					}
					units = append(units, Unit{Opts: def, Mon: mon, Tag: "type-by-type", History: acc})
				}
			}
			for it := 0; it < 12; it++ {
				var h []Letter
				for k := 0; k <= it; k++ {
					h = append(h, one(sig, k%NumRes, k%NumScope, (k*7)%numItems(sig)))
				}
				units = append(units, Unit{Opts: def, Mon: mon, Tag: "type-by-type", History: h})
			}
		}
		// zero-first-then-non-zero per archetype: [a] then [b] for all ordered pairs (histories of depth 2)
		for _, a := range items {
			for _, b := range items {
				units = append(units, Unit{Opts: def, Mon: mon, Tag: "H2all", History: []Letter{one(sig, 0, 0, a), one(sig, 0, 0, b)}})
			}
		}
		// history layer of the round-trip alphabet plus wild letters
		alpha := historyAlphabet(sig, false)
		for w := 0; w < NumWild; w += 2 {
			alpha = append(alpha, one(sig, 1, 1, WildBase+w, WildBase+w+1))
		}
		depth := 3
		for _, h := range histories(alpha, depth) {
			units = append(units, Unit{Opts: def, Mon: mon, Tag: "H3wild", History: h})
		}
		u8 := def
		u8.Dict = "u8"
		for _, thr := range []float64{0, 0.3, 1e18} {
			o := u8
			o.Reset = thr
			for _, h := range rampHistories(sig, 130, 4, false) {
				units = append(units, Unit{Opts: o, Mon: mon, Tag: "ramps-u8", History: h})
			}
			// one batch alone exceeds the limit
			for _, l := range rampLetters(sig, 300) {
				units = append(units, Unit{Opts: o, Mon: mon, Tag: "ramp300-u8", History: fixRamps([]Letter{l, l})})
			}
			for _, h := range prefixRampHistories(sig, 100, 300) {
				units = append(units, Unit{Opts: o, Mon: mon, Tag: "prefixramp-u8", History: h})
			}
			for _, h := range allAttrsHistories(sig, 300) {
				units = append(units, Unit{Opts: o, Mon: mon, Tag: "allattrs-u8", History: h})
			}
		}
		for _, h := range emptyRequestHistories(sig) {
			units = append(units, Unit{Opts: def, Mon: mon, Tag: "empty-requests", History: h})
		}
		// id-width edges: refused with an error, never a panic; the stream stays usable
		after := one(sig, 1, 1, 1, 0)
		kinds := []string{"items"}
		sizes := []int{65536}
		if thorough {
			kinds = []string{"items", "resources", "scopes"}
			if sig == "traces" {
				kinds = append(kinds, "events")
			}
			sizes = []int{65535, 65536, 65537}
		}
		for _, k := range kinds {
			for _, n := range sizes {
				units = append(units, Unit{Opts: def, Mon: mon, Tag: "idwidth", History: []Letter{{Sig: sig, Big: &Big{Kind: k, N: n}}, after, after}})
			}
		}
		if !thorough {
			units = append(units, Unit{Opts: def, Mon: mon, Tag: "idwidth", History: []Letter{{Sig: sig, Big: &Big{Kind: "resources", N: 65537}}, after, after}})
		}
		// every record has a non-empty attribute map, but two of them hold only entries the encoder skips
		for _, n := range []int{65537, 65540} {
			units = append(units, Unit{Opts: def, Mon: mon, Tag: "idwidth-skipattrs", History: []Letter{{Sig: sig, Big: &Big{Kind: "items-skipattrs", N: n}}, after, after}},
				Unit{Opts: def, Mon: mon, Tag: "idwidth-skipattrs", History: []Letter{after, one(sig, 1, 1, 1), {Sig: sig, Big: &Big{Kind: "items-skipattrs", N: n}}, after}})
		}
		// a refused batch in the middle of a healthy stream
		for _, k := range []string{"items", "resources", "scopes"} {
			units = append(units, Unit{Opts: def, Mon: mon, Tag: "idwidth-mid", History: []Letter{after, one(sig, 1, 1, 1, 0), {Sig: sig, Big: &Big{Kind: k, N: 65537}}, after, after}})
		}
	}
	return units
}

func framingPlan(tier string) []Unit {
	thorough := tier == "thorough"
	var units []Unit
	mon := Monitors{Framing: true, Roundtrip: false}
	for _, z := range []int{0, 1} {
		def := DefaultOptions()
		def.Zstd = z
		// per-signal history layer
		for _, sig := range sigs() {
			alpha := historyAlphabet(sig, false)
			for _, h := range histories(alpha, 3) {
				units = append(units, Unit{Opts: def, Mon: mon, Tag: "H3-" + sig, History: h})
			}
		}
		// interleaved signals on one producer (RESOURCE_ATTRS / SCOPE_ATTRS types are shared)
		var mixed []Letter
		for _, sig := range sigs() {
			a := historyAlphabet(sig, false)
			mixed = append(mixed, a[1], a[2], a[5])
		}
		mixed = append(mixed, Letter{Op: "resetstats"}, Letter{Op: "sizestats"})
		depth := 3
		if thorough {
			depth = 4
		}
		for _, h := range histories(mixed, depth) {
			units = append(units, Unit{Opts: def, Mon: mon, Tag: "mixed", History: h})
		}
		for _, h := range sharedAttrHistories() {
			units = append(units, Unit{Opts: def, Mon: mon, Tag: "mixed-shared-attrs", History: h})
		}
		for _, sig := range sigs() {
			for _, h := range emptyRequestHistories(sig) {
				units = append(units, Unit{Opts: def, Mon: mon, Tag: "empty-requests", History: h})
			}
		}
		// payloads of more than a MiB followed by further batches on the same sub-streams, and
		// the size-statistics option (it reads the sub-stream's output buffer)
		for _, sig := range sigs() {
			a := historyAlphabet(sig, false)
			for _, l := range rampLetters(sig, 30000) {
				if l.Ramp.Uses != 1 {
					continue
				}
				units = append(units, Unit{Opts: def, Mon: mon, Tag: "large-" + sig, History: fixRamps([]Letter{a[2], l, a[2], l, a[1]})})
			}
			st := def
			st.Stats = "ratio"
			for _, h := range histories(a[:8], 2) {
				units = append(units, Unit{Opts: st, Mon: mon, Tag: "stats-option-" + sig, History: append(append([]Letter{}, h...), h[0], h[1])})
			}
		}
		// sub-streams left idle for any number of batches and then used again
		if z == 0 {
			for _, sig := range sigs() {
				for _, h := range idleGapHistories(sig, thorough) {
					units = append(units, Unit{Opts: def, Mon: mon, Tag: "idle-gap-" + sig, History: h})
				}
			}
		}
		// one refused allocation inside the IPC write of any record of any batch, then two more batches
		for _, sig := range sigs() {
			a := historyAlphabet(sig, false)
			for _, z := range []int{-1, 0} {
				o := def
				o.Zstd = z
				for _, h := range histories(a[:4], 2) {
					for step := 0; step < 3; step++ {
						for rec := 0; rec < 4; rec++ {
							hh := append(append([]Letter{}, h...), a[1], a[2])
							units = append(units, Unit{Opts: o, Mon: mon, Tag: "alloc-fault-" + sig, History: hh, Fault: &ProdFault{Step: step, Record: rec}})
						}
					}
				}
			}
		}
		// per signal: the statistics call between any two batches of the history alphabet
		for _, sig := range sigs() {
			a := historyAlphabet(sig, false)
			for _, x := range a {
				for _, y := range a {
					units = append(units, Unit{Opts: def, Mon: mon, Tag: "statsreset-" + sig, History: fixRamps([]Letter{x, {Op: "resetstats"}, y})})
				}
			}
		}
		// retained batches: everything is produced first and verified afterwards
		for _, sig := range sigs() {
			a := historyAlphabet(sig, false)
			for _, h := range histories(a, 2) {
				units = append(units, Unit{Opts: def, Mon: mon, Tag: "H2retained-" + sig, History: h, Pipelined: true})
			}
			for _, h := range histories(a[:5], 3) {
				units = append(units, Unit{Opts: def, Mon: mon, Tag: "H3retained-" + sig, History: h, Pipelined: true})
			}
		}
		// dictionary resets under an unchanged schema, overflows, upgrades
		for _, sig := range sigs() {
			for _, thr := range []float64{0, 0.3, 1e18} {
				o := def
				o.Dict, o.Reset = "u8", thr
				for _, h := range rampHistories(sig, 130, 4, false) {
					units = append(units, Unit{Opts: o, Mon: mon, Tag: "ramps-u8-" + sig, History: h})
				}
			}
		}
	}
	return units
}

func dictPlan(tier string) []Unit {
	thorough := tier == "thorough"
	var units []Unit
	mon := Monitors{DictSize: true, Framing: false}
	for _, sig := range sigs() {
		for _, o := range dictConfigs() {
			if o.Zstd == 0 {
				continue
			}
			if !thorough && (o.Dict == "u32" || o.Dict == "u64") {
				continue
			}
			for _, h := range rampHistories(sig, 130, 4, false) {
				units = append(units, Unit{Opts: o, Mon: mon, Tag: "ramp130-" + sig, History: h})
			}
			if o.Dict == "u8" {
				for _, l := range rampLetters(sig, 300) {
					units = append(units, Unit{Opts: o, Mon: mon, Tag: "ramp300-" + sig, History: fixRamps([]Letter{l, l, l})})
				}
			}
		}
		// the initial-index-width options, before and after the limit option: the bound does not depend on them
		for _, o := range initConfigs() {
			for _, l := range rampLetters(sig, 300) {
				if l.Ramp.Uses != 1 {
					continue
				}
				units = append(units, Unit{Opts: o, Mon: mon, Tag: "init-" + sig, History: fixRamps([]Letter{l, l, l})})
			}
		}
		// long streams of unbounded-cardinality columns
		long := 60
		if thorough {
			long = 300
		}
		for _, o := range []Options{{Dict: "u8", Reset: 0.3, Zstd: -1, Span: -1, Attrs16: -1, Attrs32: -1}, {Dict: "u8", Reset: 0, Zstd: -1, Span: -1, Attrs16: -1, Attrs32: -1},
			{Dict: "u8", Reset: 1e18, Zstd: -1, Span: -1, Attrs16: -1, Attrs32: -1}} {
			for _, l := range rampLetters(sig, 40) {
				h := make([]Letter, long)
				for i := range h {
					h[i] = l
				}
				units = append(units, Unit{Opts: o, Mon: mon, Tag: "long-" + sig, History: fixRamps(h)})
			}
		}
		// nested dictionary columns of the main record (resource.schema_url, scope.name/version,
		// schema_url, status message, ...) that do not exist in the first batch and then take
		// more distinct values than the limit: as first column of its struct and after it
		{
			plain := historyAlphabet(sig, false)[0]
			cont := func(n, uses int) Letter { return Letter{Sig: sig, Ramp: &Ramp{Kind: "containers", N: n, Uses: uses}} }
			for _, thr := range []float64{0, 0.3, 1e18} {
				o := Options{Dict: "u8", Reset: thr, Zstd: -1, Span: -1, Attrs16: -1, Attrs32: -1}
				units = append(units, Unit{Opts: o, Mon: mon, Tag: "containers-" + sig, History: fixRamps([]Letter{plain, cont(300, 1), cont(300, 1), cont(300, 1)})},
					Unit{Opts: o, Mon: mon, Tag: "containers-" + sig, History: fixRamps([]Letter{plain, cont(100, 4), cont(100, 4), cont(100, 4), cont(300, 1)})},
					Unit{Opts: o, Mon: mon, Tag: "containers-" + sig, History: fixRamps([]Letter{cont(300, 1), plain, cont(300, 2)})})
			}
			if thorough {
				units = append(units, Unit{Opts: DefaultOptions(), Mon: mon, Tag: "containers-default-" + sig, History: fixRamps([]Letter{plain, cont(30000, 1), cont(30000, 1), cont(30000, 1), cont(30000, 1)})})
			}
			// a batch refused half-way through Append (id width), then columns outgrowing the limit
			for _, big := range []string{"items", "resources"} {
				for _, thr := range []float64{0, 0.3, 1e18} {
					o := Options{Dict: "u8", Reset: thr, Zstd: -1, Span: -1, Attrs16: -1, Attrs32: -1}
					for _, l := range rampLetters(sig, 300) {
						if l.Ramp.Uses > 2 {
							continue
						}
						units = append(units, Unit{Opts: o, Mon: mon, Tag: "after-refusal-" + sig, History: fixRamps([]Letter{historyAlphabet(sig, false)[2], {Sig: sig, Big: &Big{Kind: big, N: 65537}}, l, l, l})})
					}
				}
			}
		}
		// limits above 16 bits: the index widens to 32 bits in mid-stream
		for _, d := range []string{"u32", "u64"} {
			o := DefaultOptions()
			o.Dict = d
			l := rampLetters(sig, 30000)[0]
			units = append(units, Unit{Opts: o, Mon: mon, Tag: "widen32-" + sig, History: fixRamps([]Letter{l, l, l, l})})
		}
		// the implicit default limit (no limit option at all): one column takes
		// 180,000 distinct values, crossing 65,535 again after the index has been
		// widened and the dictionaries restarted
		{
			l := rampLetters(sig, 30000)[0]
			units = append(units, Unit{Opts: DefaultOptions(), Mon: mon, Tag: "implicit-default-" + sig, History: fixRamps([]Letter{l, l, l, l, l, l})})
		}
		for _, h := range prefixRampHistories(sig, 100, 300) {
			for _, thr := range []float64{0, 0.3, 1e18} {
				units = append(units, Unit{Opts: Options{Dict: "u8", Reset: thr, Zstd: -1, Span: -1, Attrs16: -1, Attrs32: -1}, Mon: mon, Tag: "prefixramp-" + sig, History: h})
			}
		}
		for _, h := range allAttrsHistories(sig, 300) {
			for _, thr := range []float64{0, 0.3, 1e18} {
				units = append(units, Unit{Opts: Options{Dict: "u8", Reset: thr, Zstd: -1, Span: -1, Attrs16: -1, Attrs32: -1}, Mon: mon, Tag: "allattrs-" + sig, History: h})
			}
		}
		if thorough {
			for _, thr := range []float64{0, 0.3, 1e18} {
				o := DefaultOptions()
				o.Reset = thr
				for _, l := range rampLetters(sig, 30000) {
					if l.Ramp.N*l.Ramp.Uses > 65000 {
						continue
					}
					units = append(units, Unit{Opts: o, Mon: mon, Tag: "ramp30k-" + sig, History: fixRamps([]Letter{l, l, l, l, l, l})})
				}
			}
		}
	}
	return units
}

func allocPlan(tier string) []Unit {
	thorough := tier == "thorough"
	var units []Unit
	mon := Monitors{Alloc: true, Immutable: true, Resend: true, ReadOnly: true}
	for _, sig := range sigs() {
		alpha := historyAlphabet(sig, false)
		for _, h := range histories(alpha, 2) {
			units = append(units, Unit{Opts: DefaultOptions(), Mon: mon, Tag: "H2-" + sig, History: h})
		}
		for _, h := range emptyRequestHistories(sig) {
			units = append(units, Unit{Opts: DefaultOptions(), Mon: mon, Tag: "empty-requests-" + sig, History: h})
		}
		for _, o := range dictConfigs() {
			if !thorough && o.Dict != "u8" && o.Dict != "none" {
				continue
			}
			for _, h := range rampHistories(sig, 130, 3, false) {
				units = append(units, Unit{Opts: o, Mon: mon, Tag: "ramp-" + sig, History: h})
			}
			for _, l := range rampLetters(sig, 300)[:2] {
				units = append(units, Unit{Opts: o, Mon: mon, Tag: "ramp300-" + sig, History: fixRamps([]Letter{l, l})})
			}
			g := groupLetters(sig)
			units = append(units, Unit{Opts: o, Mon: mon, Tag: "group-" + sig, History: []Letter{g[0], g[1], g[0]}})
		}
		// the statistics call (it zeroes the producer's stream counters) at any point of a short history
		for _, h := range histories(alpha[:8], 2) {
			rs := Letter{Op: "resetstats"}
			units = append(units, Unit{Opts: DefaultOptions(), Mon: mon, Tag: "statsreset-" + sig, History: []Letter{h[0], rs, h[1]}},
				Unit{Opts: DefaultOptions(), Mon: mon, Tag: "statsreset-" + sig, History: []Letter{h[0], h[1], rs, h[0]}},
				Unit{Opts: DefaultOptions(), Mon: mon, Tag: "statsreset-" + sig, History: []Letter{h[0], rs, h[0], h[1], rs}})
		}
		// every archetype alone and after a warm-up (numeric extremes, invalid UTF-8, ...)
		for it := 0; it < numItems(sig); it++ {
			units = append(units, Unit{Opts: DefaultOptions(), Mon: mon, Tag: "single-" + sig, History: []Letter{one(sig, 1, 1, it)}},
				Unit{Opts: DefaultOptions(), Mon: mon, Tag: "single-" + sig, History: []Letter{alpha[10], one(sig, 2, 3, it, it)}})
		}
		// every span / attribute ordering over requests whose containers repeat non-adjacently
		// (a sorter must order its own copy, never the caller's request)
		for sp := 0; sp < 7; sp++ {
			for a := 0; a < 5; a++ {
				o := DefaultOptions()
				o.Span, o.Attrs16, o.Attrs32 = sp, a%4, a
				lay := Letter{Sig: sig, Groups: []Group{{R: 2, Scopes: []Scope{{S: 3, Items: []int{2, 1}}, {S: 1, Items: []int{0}}, {S: 3, Items: []int{1}}}}, {R: 1, Scopes: []Scope{{S: 1, Items: []int{1}}}},
					{R: 2, Scopes: []Scope{{S: 1, Items: []int{2}}}}, {R: 1, Scopes: []Scope{{S: 3, Items: []int{0, 2}}}}}}
				units = append(units, Unit{Opts: o, Mon: mon, Tag: "orderings-" + sig, History: []Letter{lay, alpha[10], lay}})
			}
		}
		// error paths: a refused batch in the middle of a history
		after := one(sig, 1, 1, 1, 0)
		units = append(units, Unit{Opts: DefaultOptions(), Mon: mon, Tag: "error-path", History: []Letter{after, {Sig: sig, Big: &Big{Kind: "resources", N: 65537}}, after}})
	}
	// mixed signals on one producer
	var mixed []Letter
	for _, sig := range sigs() {
		a := historyAlphabet(sig, false)
		mixed = append(mixed, a[1], a[2])
	}
	for _, h := range histories(mixed, 3) {
		units = append(units, Unit{Opts: DefaultOptions(), Mon: mon, Tag: "mixed", History: h})
	}
	return units
}
