package main

// Out-of-domain ("wild") archetypes for C08: every OTLP value constructible
// through pdata must be encoded or refused, never crash the producer.

import (
	"math"

	"go.opentelemetry.io/collector/pdata/pcommon"
	"go.opentelemetry.io/collector/pdata/plog"
	"go.opentelemetry.io/collector/pdata/pmetric"
	"go.opentelemetry.io/collector/pdata/ptrace"
)

const WildBase = 100
const NumWild = 8

const badUTF8 = "bad\xff\xfeutf8\xc0"

func deepMap(m pcommon.Map, depth int) {
	cur := m.PutEmptyMap("deep")
	for d := 0; d < depth; d++ {
		cur = cur.PutEmptyMap("n")
	}
	cur.PutStr("leaf", "x")
}

func deepSlice(m pcommon.Map, depth int) {
	cur := m.PutEmptySlice("deepl")
	for d := 0; d < depth; d++ {
		cur = cur.AppendEmpty().SetEmptySlice()
	}
	cur.AppendEmpty().SetStr("leaf")
}

func wildAttrs(i int, m pcommon.Map) {
	switch i {
	case 0:
		m.PutStr(badUTF8, badUTF8)
		m.PutEmptyBytes("b").FromRaw([]byte(badUTF8))
	case 1:
		deepMap(m, 17)
	case 2:
		deepMap(m, 40)
		deepSlice(m, 40)
	case 3:
		m.PutDouble("nan", math.NaN())
		m.PutDouble("inf", math.Inf(1))
		m.PutDouble("ninf", math.Inf(-1))
		m.PutInt("min", math.MinInt64)
	case 4:
		mm := m.PutEmptyMap("m")
		mm.PutStr(badUTF8, badUTF8)
		mm.PutEmptySlice("s").AppendEmpty().SetStr(badUTF8)
	case 5:
		m.PutStr("", "")
		m.PutEmpty("")
		m.PutEmpty("e")
	case 6:
		big := make([]byte, 70000)
		m.PutEmptyBytes("big").FromRaw(big)
		m.PutStr("bigs", string(make([]byte, 70000)))
	case 7:
		for k := 0; k < 300; k++ {
			m.PutInt(string(rune('a'+k%26))+string(rune('0'+k/26)), int64(k))
		}
	}
}

func wildSpan(i int, sp ptrace.Span) {
	sp.SetTraceID(tid(1))
	sp.SetSpanID(sid(1))
	sp.SetName("a")
	w := i - WildBase
	switch w {
	case 0:
		sp.SetName(badUTF8)
		sp.TraceState().FromRaw(badUTF8)
		sp.Status().SetMessage(badUTF8)
		e := sp.Events().AppendEmpty()
		e.SetName(badUTF8)
		wildAttrs(0, e.Attributes())
		l := sp.Links().AppendEmpty()
		l.TraceState().FromRaw(badUTF8)
		wildAttrs(0, l.Attributes())
	case 1:
		sp.SetStartTimestamp(math.MaxUint64)
		sp.SetEndTimestamp(1 << 63)
		sp.Events().AppendEmpty().SetTimestamp(math.MaxUint64)
	case 2:
		sp.SetStartTimestamp(math.MaxUint64)
		sp.SetEndTimestamp(0)
		sp.SetKind(ptrace.SpanKind(-5))
		sp.Status().SetCode(ptrace.StatusCode(99))
	case 3:
		sp.SetKind(ptrace.SpanKind(math.MaxInt32))
		sp.SetDroppedAttributesCount(math.MaxUint32)
	}
	wildAttrs(w, sp.Attributes())
}

func wildLog(i int, lr plog.LogRecord) {
	w := i - WildBase
	switch w {
	case 0:
		lr.Body().SetStr(badUTF8)
		lr.SetSeverityText(badUTF8)
	case 1:
		lr.SetTimestamp(math.MaxUint64)
		lr.SetObservedTimestamp(1 << 63)
		deepMap(lr.Body().SetEmptyMap(), 17)
	case 2:
		deepMap(lr.Body().SetEmptyMap(), 40)
		lr.SetSeverityNumber(plog.SeverityNumber(-7))
	case 3:
		lr.Body().SetDouble(math.NaN())
		lr.SetSeverityNumber(plog.SeverityNumber(math.MaxInt32))
		lr.SetFlags(plog.LogRecordFlags(math.MaxUint32))
	case 4:
		sl := lr.Body().SetEmptySlice()
		sl.AppendEmpty().SetStr(badUTF8)
		sl.AppendEmpty().SetEmptyBytes().FromRaw([]byte(badUTF8))
	}
	wildAttrs(w, lr.Attributes())
}

func wildMetric(i int, m pmetric.Metric) {
	w := i - WildBase
	m.SetName("m")
	switch w {
	case 0:
		m.SetName(badUTF8)
		m.SetDescription(badUTF8)
		m.SetUnit(badUTF8)
		dp := m.SetEmptyGauge().DataPoints().AppendEmpty()
		wildAttrs(0, dp.Attributes())
		wildAttrs(0, dp.Exemplars().AppendEmpty().FilteredAttributes())
	case 1:
		dp := m.SetEmptySum().DataPoints().AppendEmpty()
		dp.SetTimestamp(math.MaxUint64)
		dp.SetStartTimestamp(1 << 63)
		dp.Exemplars().AppendEmpty().SetTimestamp(math.MaxUint64)
		m.Sum().SetAggregationTemporality(pmetric.AggregationTemporality(77))
		wildAttrs(1, dp.Attributes())
	case 2:
		dp := m.SetEmptyHistogram().DataPoints().AppendEmpty()
		dp.SetSum(math.NaN())
		dp.SetMin(math.Inf(-1))
		dp.SetMax(math.Inf(1))
		dp.ExplicitBounds().FromRaw([]float64{math.NaN(), math.Inf(1), 0, -1})
		dp.BucketCounts().FromRaw([]uint64{math.MaxUint64, 0})
		dp.SetCount(math.MaxUint64)
		dp.SetTimestamp(math.MaxUint64)
		wildAttrs(2, dp.Attributes())
	case 3:
		dp := m.SetEmptyExponentialHistogram().DataPoints().AppendEmpty()
		dp.SetScale(math.MinInt32)
		dp.Positive().SetOffset(math.MaxInt32)
		dp.Negative().SetOffset(math.MinInt32)
		dp.SetZeroCount(math.MaxUint64)
		dp.SetSum(math.NaN())
		dp.Positive().BucketCounts().FromRaw([]uint64{0, 0, math.MaxUint64})
		wildAttrs(3, dp.Attributes())
	case 4:
		dp := m.SetEmptySummary().DataPoints().AppendEmpty()
		q := dp.QuantileValues().AppendEmpty()
		q.SetQuantile(math.NaN())
		q.SetValue(math.Inf(-1))
		dp.SetSum(math.NaN())
		dp.SetTimestamp(math.MaxUint64)
		wildAttrs(4, dp.Attributes())
	default:
		dp := m.SetEmptyGauge().DataPoints().AppendEmpty()
		dp.SetDoubleValue(math.NaN())
		wildAttrs(w, dp.Attributes())
	}
}
