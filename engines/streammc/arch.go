package main

// Archetypes: one input per shortcut visible in the encoder/decoder code.
// A Letter (one batch) is a layout of archetype indices, so every history is
// serialisable in a replay artefact and rebuilt identically.

import (
	"fmt"
	"math"
	"strings"

	"go.opentelemetry.io/collector/pdata/pcommon"
	"go.opentelemetry.io/collector/pdata/plog"
	"go.opentelemetry.io/collector/pdata/pmetric"
	"go.opentelemetry.io/collector/pdata/ptrace"
)

type Letter struct {
	Sig    string  `json:"sig"`
	Name   string  `json:"name,omitempty"`
	Groups []Group `json:"groups,omitempty"`
	Ramp   *Ramp   `json:"ramp,omitempty"`
	Big    *Big    `json:"big,omitempty"`
	Mix    *Mix    `json:"mix,omitempty"`
	// Op is a producer API call that is not an encode: "resetstats" (GetAndResetStats), "showstats"
	Op string `json:"op,omitempty"`
}
// Mix is a generated batch in which one attribute key carries a value of a
// different type (and the zero and a non-zero value of each type) under each of
// NumMixValues consecutive parents; Rot rotates which parent gets which value.
type Mix struct {
	Level string `json:"level"` // item | resource | scope | sub (events+links / exemplars)
	Rot   int    `json:"rot"`
	// N > 0: only the first N values of the rotation (N = 1: a batch that introduces one value type)
	N int `json:"n,omitempty"`
}

func (m *Mix) count() int {
	if m.N > 0 {
		return m.N
	}
	return NumMixValues
}

const NumMixValues = 18

func putMixValue(m pcommon.Map, j int) {
	switch j % NumMixValues {
	case 0:
		m.PutBool("k", false)
	case 1:
		m.PutStr("k", "x")
	case 2:
		m.PutBool("k", true)
	case 3:
		m.PutInt("k", 0)
	case 4:
		m.PutEmptyBytes("k").FromRaw([]byte{1})
	case 5:
		m.PutDouble("k", 0)
	case 6:
		m.PutStr("k", "")
	case 7:
		m.PutInt("k", 1)
	case 8:
		m.PutEmptyBytes("k")
	case 9:
		m.PutDouble("k", 1.5)
	case 10:
		m.PutEmptyMap("k")
	case 11:
		m.PutEmptySlice("k").AppendEmpty().SetInt(1)
	case 12:
		m.PutEmptyMap("k").PutInt("x", 1)
	case 13:
		m.PutEmptySlice("k")
	// containers that differ only by a nested empty byte string vs an unset value (both decode as unset)
	case 14:
		m.PutEmptySlice("k").AppendEmpty().SetEmptyBytes()
	case 15:
		m.PutEmptySlice("k").AppendEmpty()
	case 16:
		m.PutEmptyMap("k").PutEmptyBytes("x")
	case 17:
		m.PutEmptyMap("k").PutEmpty("x")
	}
}

type Group struct {
	R      int     `json:"r"`
	Scopes []Scope `json:"scopes"`
}
type Scope struct {
	S     int   `json:"s"`
	Items []int `json:"items"`
}

// Ramp is a generated batch that pushes dictionary cardinalities.
// Big is a generated batch at the id-width edge (C08).
type Big struct {
	Kind string `json:"kind"` // spans | resources | scopes | records-noattrs
	N    int    `json:"n"`
}

type Ramp struct {
	Kind  string `json:"kind"`  // names | attrs | bodies | ids
	N     int    `json:"n"`     // fresh distinct values
	Uses  int    `json:"uses"`  // how many records use each value
	Base  int    `json:"base"`  // first value number (values never repeat across batches with different bases)
	Large bool   `json:"large,omitempty"`
}

func (l Letter) String() string {
	if l.Op != "" {
		return "op:" + l.Op
	}
	if l.Name != "" {
		return l.Name
	}
	if l.Ramp != nil {
		return fmt.Sprintf("%s:ramp(%s,n=%d,uses=%d,base=%d)", l.Sig, l.Ramp.Kind, l.Ramp.N, l.Ramp.Uses, l.Ramp.Base)
	}
	if l.Big != nil {
		return fmt.Sprintf("%s:big(%s,n=%d)", l.Sig, l.Big.Kind, l.Big.N)
	}
	if l.Mix != nil {
		if l.Mix.N > 0 {
			return fmt.Sprintf("%s:typemix(%s,rot=%d,n=%d)", l.Sig, l.Mix.Level, l.Mix.Rot, l.Mix.N)
		}
		return fmt.Sprintf("%s:typemix(%s,rot=%d)", l.Sig, l.Mix.Level, l.Mix.Rot)
	}
	var parts []string
	for _, g := range l.Groups {
		var sp []string
		for _, s := range g.Scopes {
			sp = append(sp, fmt.Sprintf("S%d%v", s.S, s.Items))
		}
		parts = append(parts, fmt.Sprintf("R%d[%s]", g.R, strings.Join(sp, " ")))
	}
	return l.Sig + ":" + strings.Join(parts, " ")
}

// ---- resources and scopes ---------------------------------------------------

const NumRes = 12

func fillRes(i int, r pcommon.Resource) (url string) {
	a := r.Attributes()
	switch i {
	case 0: // empty
	case 1:
		a.PutStr("a", "1")
	case 2:
		a.PutInt("a", 1) // same identity string as 1 unless values are type-tagged
	case 3:
		a.PutStr("a", "1")
		a.PutStr("b", "2")
	case 4:
		a.PutStr("a", "1,b:2") // embedded delimiters
	case 5:
		a.PutStr("a", "1")
		return "https://schema/res"
	case 6:
		a.PutStr("a", "1")
		r.SetDroppedAttributesCount(3)
	case 7:
		a.PutBool("a", true)
	case 8:
		a.PutStr("a", "true")
	case 9: // only attributes that the encoder drops
		fillAttrs(10, a)
	case 10: // same number as 2, but a double
		a.PutDouble("a", 1)
	case 11: // int vs double nested in a list (pairs with 10/2 through the key only)
		sl := a.PutEmptySlice("a")
		sl.AppendEmpty().SetDouble(1)
	}
	return ""
}

const NumScope = 11

func fillScope(i int, s pcommon.InstrumentationScope) (url string) {
	switch i {
	case 0:
	case 1:
		s.SetName("n")
	case 2:
		s.SetVersion("v")
	case 3:
		s.SetName("x|version:y")
		s.SetVersion("z")
	case 4:
		s.SetName("x")
		s.SetVersion("y|version:z")
	case 5:
		s.SetName("n")
		s.Attributes().PutStr("k", "v")
	case 6:
		s.SetName("n")
		return "https://schema/scope"
	case 7:
		s.SetName("n")
		s.SetVersion("v")
		s.SetDroppedAttributesCount(2)
	case 8:
		s.SetName("n")
		fillAttrs(10, s.Attributes())
	case 9: // int vs double in a nested list: pairs with 10
		s.SetName("n")
		s.Attributes().PutEmptySlice("k").AppendEmpty().SetInt(200)
	case 10:
		s.SetName("n")
		s.Attributes().PutEmptySlice("k").AppendEmpty().SetDouble(200)
	}
	return ""
}

// ---- attribute archetypes shared by all signals ------------------------------

const NumAttrs = 12

func fillAttrs(i int, m pcommon.Map) {
	switch i {
	case 0:
	case 1: // one of each type
		m.PutStr("s", "v")
		m.PutInt("i", 7)
		m.PutDouble("d", 1.5)
		m.PutBool("b", true)
		m.PutEmptyBytes("y").FromRaw([]byte{1, 2})
		sl := m.PutEmptySlice("l")
		sl.AppendEmpty().SetInt(1)
		sl.AppendEmpty().SetStr("a")
		m.PutEmptyMap("m").PutInt("x", 1)
	case 2: // zero values of each type
		m.PutStr("s", "")
		m.PutInt("i", 0)
		m.PutDouble("d", 0)
		m.PutBool("b", false)
		m.PutEmptyBytes("y")
		m.PutEmptySlice("l")
		m.PutEmptyMap("m")
	case 3: // documented normalisations
		m.PutDouble("nz", math.Copysign(0, -1))
		m.PutDouble("nan", math.NaN())
		m.PutStr("", "empty key is dropped")
		m.PutEmpty("unset")
		m.PutStr("keep", "k")
	case 4: // nested values with empty bytes / unset inside
		sl := m.PutEmptySlice("l")
		sl.AppendEmpty().SetEmptyBytes()
		sl.AppendEmpty()
		sl.AppendEmpty().SetEmptyMap().PutEmptyBytes("a")
		mm := m.PutEmptyMap("m")
		mm.PutEmptySlice("l").AppendEmpty().SetDouble(math.Copysign(0, -1))
		mm.PutEmpty("u")
		mm.PutStr("", "nested empty key")
	case 5: // shares (s,"v") and (i,7) with 1: equal key/value pairs across parents
		m.PutStr("s", "v")
		m.PutInt("i", 7)
	case 6: // type-confusable with 7
		m.PutInt("s", 1)
	case 7:
		m.PutStr("s", "1")
	case 8: // nesting depth 16
		cur := m.PutEmptyMap("deep")
		for d := 0; d < 14; d++ {
			cur = cur.PutEmptyMap("n")
		}
		cur.PutStr("leaf", "x")
	case 11: // large values (in domain: any valid UTF-8 length)
		m.PutStr("big", strings.Repeat("é", 40000))
		m.PutEmptyBytes("bigb").FromRaw(make([]byte, 70000))
		m.PutEmptySlice("bigl").AppendEmpty().SetStr(strings.Repeat("x", 70000))
	case 10: // nothing survives: empty key, unset value
		m.PutStr("", "empty key is dropped")
		m.PutEmpty("unset")
	case 9: // boundary numbers and unicode
		m.PutInt("max", math.MaxInt64)
		m.PutInt("min", math.MinInt64)
		m.PutDouble("inf", math.Inf(1))
		m.PutDouble("tiny", 5e-324)
		m.PutDouble("neg", -2.5)
		m.PutInt("negi", -5)
		m.PutStr("u", "é日本\u0000")
		m.PutEmptyBytes("big").FromRaw(make([]byte, 300))
	}
}

func tid(b byte) pcommon.TraceID {
	var t pcommon.TraceID
	if b != 0 {
		for i := range t {
			t[i] = b
		}
	}
	return t
}
func sid(b byte) pcommon.SpanID {
	var s pcommon.SpanID
	if b != 0 {
		for i := range s {
			s[i] = b
		}
	}
	return s
}

// ---- spans -------------------------------------------------------------------

const NumSpan = 31

func fillSpan(i int, sp ptrace.Span) {
	if i >= WildBase {
		wildSpan(i, sp)
		return
	}
	sp.SetTraceID(tid(1))
	sp.SetSpanID(sid(1))
	sp.SetName("a")
	switch i {
	case 0: // mandatory fields only, start=end=0
	case 1: // every optional scalar
		sp.TraceState().FromRaw("k=v")
		sp.SetParentSpanID(sid(9))
		sp.SetKind(ptrace.SpanKindClient)
		sp.SetDroppedAttributesCount(1)
		sp.SetDroppedEventsCount(2)
		sp.SetDroppedLinksCount(3)
		sp.Status().SetCode(ptrace.StatusCodeError)
		sp.Status().SetMessage("m")
		sp.SetStartTimestamp(100)
		sp.SetEndTimestamp(250)
	case 2: // empty name, zero ids, message only
		sp.SetName("")
		sp.SetTraceID(tid(0))
		sp.SetSpanID(sid(0))
		sp.Status().SetMessage("only message")
	case 3: // code only
		sp.Status().SetCode(ptrace.StatusCodeOk)
	case 4: // boundary counts
		sp.SetDroppedAttributesCount(math.MaxUint32)
		sp.SetDroppedEventsCount(math.MaxUint32)
		sp.SetDroppedLinksCount(math.MaxUint32)
		sp.SetKind(ptrace.SpanKindConsumer)
	case 5: // start > end
		sp.SetStartTimestamp(500)
		sp.SetEndTimestamp(100)
	case 6: // maximal timestamps
		sp.SetStartTimestamp(math.MaxInt64)
		sp.SetEndTimestamp(math.MaxInt64)
	case 7:
		sp.SetStartTimestamp(0)
		sp.SetEndTimestamp(math.MaxInt64)
	case 8:
		fillAttrs(1, sp.Attributes())
	case 9:
		fillAttrs(2, sp.Attributes())
	case 10:
		fillAttrs(3, sp.Attributes())
	case 11:
		fillAttrs(4, sp.Attributes())
	case 12:
		fillAttrs(5, sp.Attributes())
		sp.SetSpanID(sid(2))
	case 13:
		fillAttrs(6, sp.Attributes())
	case 14:
		fillAttrs(7, sp.Attributes())
		sp.SetSpanID(sid(3))
	case 15: // one event with the decoder's initial name ""
		sp.Events().AppendEmpty()
	case 16: // two events with equal names, attrs, times
		e := sp.Events().AppendEmpty()
		e.SetName("e1")
		e.SetTimestamp(10)
		fillAttrs(5, e.Attributes())
		e = sp.Events().AppendEmpty()
		e.SetName("e1")
		e.SetTimestamp(20)
		e.SetDroppedAttributesCount(4)
	case 17: // event name shared with 16 from another span, same attrs
		sp.SetSpanID(sid(4))
		e := sp.Events().AppendEmpty()
		e.SetName("e1")
		fillAttrs(5, e.Attributes())
		e = sp.Events().AppendEmpty()
		e.SetName("e0")
		fillAttrs(1, e.Attributes())
	case 18: // link with zero ids
		sp.Links().AppendEmpty()
	case 19: // two links, equal trace ids
		l := sp.Links().AppendEmpty()
		l.SetTraceID(tid(7))
		l.SetSpanID(sid(7))
		l.TraceState().FromRaw("ls=1")
		fillAttrs(5, l.Attributes())
		l = sp.Links().AppendEmpty()
		l.SetTraceID(tid(7))
		l.SetSpanID(sid(8))
		l.SetDroppedAttributesCount(6)
	case 20: // link trace id shared with 19 from another span
		sp.SetSpanID(sid(5))
		l := sp.Links().AppendEmpty()
		l.SetTraceID(tid(7))
		l.SetSpanID(sid(6))
		fillAttrs(5, l.Attributes())
	case 21: // everything at once
		sp.SetName("b")
		sp.SetTraceID(tid(2))
		sp.SetSpanID(sid(6))
		sp.SetStartTimestamp(7)
		sp.SetEndTimestamp(9)
		fillAttrs(1, sp.Attributes())
		e := sp.Events().AppendEmpty()
		e.SetName("e2")
		fillAttrs(9, e.Attributes())
		l := sp.Links().AppendEmpty()
		l.SetTraceID(tid(3))
		fillAttrs(3, l.Attributes())
	case 22:
		fillAttrs(8, sp.Attributes())
	case 23:
		fillAttrs(9, sp.Attributes())
		sp.SetName("b")
	case 24: // three events, each with the same single attribute (adjacent equal key/value rows in any order)
		for k := 0; k < 3; k++ {
			e := sp.Events().AppendEmpty()
			e.SetName([]string{"e1", "e1", "e2"}[k])
			fillAttrs(7, e.Attributes())
		}
		fillAttrs(7, sp.Attributes())
	case 28: // large strings everywhere
		sp.SetName(strings.Repeat("n", 70000))
		sp.Status().SetMessage(strings.Repeat("m", 70000))
		fillAttrs(11, sp.Attributes())
		e := sp.Events().AppendEmpty()
		e.SetName(strings.Repeat("e", 70000))
		fillAttrs(11, e.Attributes())
	case 27: // attribute maps (span, event, link) whose entries are all dropped by the encoder
		fillAttrs(10, sp.Attributes())
		fillAttrs(10, sp.Events().AppendEmpty().Attributes())
		fillAttrs(10, sp.Links().AppendEmpty().Attributes())
	case 26: // uniform groups: every event has the same name and attribute, every link the same trace id and attribute
		for k := 0; k < 2; k++ {
			e := sp.Events().AppendEmpty()
			e.SetName("e1")
			fillAttrs(7, e.Attributes())
			l := sp.Links().AppendEmpty()
			l.SetTraceID(tid(7))
			fillAttrs(7, l.Attributes())
		}
		fillAttrs(7, sp.Attributes())
	case 29: // numeric extremes: every unsigned field at its maximum, timestamps with the high bit
		sp.SetStartTimestamp(pcommon.Timestamp(1 << 63))
		sp.SetEndTimestamp(pcommon.Timestamp(math.MaxUint64))
		sp.SetDroppedAttributesCount(math.MaxUint32)
		sp.SetDroppedEventsCount(math.MaxUint32)
		sp.SetDroppedLinksCount(math.MaxUint32)
		sp.SetFlags(math.MaxUint32)
		sp.SetKind(ptrace.SpanKindConsumer)
		sp.Status().SetCode(ptrace.StatusCodeError)
		sp.Attributes().PutInt("imin", math.MinInt64)
		sp.Attributes().PutInt("imax", math.MaxInt64)
		sp.Attributes().PutDouble("dinf", math.Inf(1))
		sp.Attributes().PutDouble("dninf", math.Inf(-1))
		sp.Attributes().PutDouble("dmax", math.MaxFloat64)
		sp.Attributes().PutDouble("dtiny", math.SmallestNonzeroFloat64)
		e := sp.Events().AppendEmpty()
		e.SetName("e")
		e.SetTimestamp(pcommon.Timestamp(1<<63 + 5))
		e.SetDroppedAttributesCount(math.MaxUint32)
		e = sp.Events().AppendEmpty()
		e.SetName("e")
		e.SetTimestamp(pcommon.Timestamp(math.MaxUint64))
		l := sp.Links().AppendEmpty()
		l.SetTraceID(tid(7))
		l.SetFlags(math.MaxUint32)
		l.SetDroppedAttributesCount(math.MaxUint32)
	case 30: // invalid UTF-8 in names and attribute values (pdata does not validate)
		sp.SetName("n\xff\xfe")
		sp.Attributes().PutStr("k", "\xe9t\xe9")
		sp.Attributes().PutStr("t", "abc\xe2\x82")
		sp.Events().AppendEmpty().Attributes().PutStr("k", "\xc3")
		sp.Links().AppendEmpty().Attributes().PutStr("k", "\xf0\x9f")
	case 25: // three links, each with the same single attribute
		sp.SetSpanID(sid(7))
		for k := 0; k < 3; k++ {
			l := sp.Links().AppendEmpty()
			l.SetTraceID(tid(byte(7 + k%2)))
			fillAttrs(7, l.Attributes())
		}
		fillAttrs(7, sp.Attributes())
	}
}

func (l Letter) BuildTraces() ptrace.Traces {
	td := ptrace.NewTraces()
	if l.Mix != nil {
		rs := td.ResourceSpans().AppendEmpty()
		ss := rs.ScopeSpans().AppendEmpty()
		for i := 0; i < l.Mix.count(); i++ {
			j := i + l.Mix.Rot
			switch l.Mix.Level {
			case "resource":
				if i > 0 {
					rs = td.ResourceSpans().AppendEmpty()
					ss = rs.ScopeSpans().AppendEmpty()
				}
				putMixValue(rs.Resource().Attributes(), j)
			case "scope":
				if i > 0 {
					ss = rs.ScopeSpans().AppendEmpty()
				}
				putMixValue(ss.Scope().Attributes(), j)
			}
			sp := ss.Spans().AppendEmpty()
			sp.SetName(fmt.Sprintf("s%d", i))
			sp.SetSpanID(sid(byte(1 + i)))
			switch l.Mix.Level {
			case "item":
				putMixValue(sp.Attributes(), j)
			case "sub":
				e := sp.Events().AppendEmpty()
				e.SetName("e")
				putMixValue(e.Attributes(), j)
				lk := sp.Links().AppendEmpty()
				lk.SetTraceID(tid(2))
				putMixValue(lk.Attributes(), j+3)
			}
		}
		return td
	}
	if l.Ramp != nil {
		rampTraces(td, l.Ramp)
		return td
	}
	if l.Big != nil {
		switch l.Big.Kind {
		case "items": // N attribute-bearing spans under one scope
			ss := td.ResourceSpans().AppendEmpty().ScopeSpans().AppendEmpty()
			ss.Spans().EnsureCapacity(l.Big.N)
			for i := 0; i < l.Big.N; i++ {
				sp := ss.Spans().AppendEmpty()
				sp.SetName("a")
				sp.Attributes().PutInt("k", 1)
			}
		case "resources": // N distinct resources (told apart by dropped count), one span each
			for i := 0; i < l.Big.N; i++ {
				rs := td.ResourceSpans().AppendEmpty()
				rs.Resource().SetDroppedAttributesCount(uint32(i + 1))
				rs.ScopeSpans().AppendEmpty().Spans().AppendEmpty().SetName("a")
			}
		case "scopes":
			rs := td.ResourceSpans().AppendEmpty()
			for i := 0; i < l.Big.N; i++ {
				ss := rs.ScopeSpans().AppendEmpty()
				ss.Scope().SetDroppedAttributesCount(uint32(i + 1))
				ss.Spans().AppendEmpty().SetName("a")
			}
		case "events":
			ss := td.ResourceSpans().AppendEmpty().ScopeSpans().AppendEmpty()
			for i := 0; i < l.Big.N; i++ {
				sp := ss.Spans().AppendEmpty()
				sp.SetName("a")
				sp.Events().AppendEmpty().SetName("e")
			}
		case "sub-events", "sub-links": // N events / links (32-bit ids) under three spans, each with its own attribute
			ss := td.ResourceSpans().AppendEmpty().ScopeSpans().AppendEmpty()
			for s := 0; s < 3; s++ {
				sp := ss.Spans().AppendEmpty()
				sp.SetName(fmt.Sprintf("a%d", s))
				sp.SetSpanID([8]byte{1, byte(s)})
				for i := s; i < l.Big.N; i += 3 {
					if l.Big.Kind == "sub-events" {
						ev := sp.Events().AppendEmpty()
						ev.SetName("e")
						ev.SetTimestamp(pcommon.Timestamp(i + 1))
						ev.Attributes().PutInt("i", int64(i))
					} else {
						lk := sp.Links().AppendEmpty()
						lk.SetTraceID([16]byte{9})
						lk.SetSpanID([8]byte{byte(i), byte(i >> 8), byte(i >> 16), 1})
						lk.Attributes().PutInt("i", int64(i))
					}
				}
			}
		case "resattrs": // N resources with one long string attribute each (a RESOURCE_ATTRS record of several MB)
			for i := 0; i < l.Big.N; i++ {
				rs := td.ResourceSpans().AppendEmpty()
				rs.Resource().Attributes().PutStr("a", fmt.Sprintf("%0200d", i))
				rs.ScopeSpans().AppendEmpty().Spans().AppendEmpty().SetName("a")
			}
		case "items-skipattrs": // N attribute-bearing spans, two of them with attributes the encoder skips entirely
			ss := td.ResourceSpans().AppendEmpty().ScopeSpans().AppendEmpty()
			ss.Spans().EnsureCapacity(l.Big.N)
			for i := 0; i < l.Big.N; i++ {
				sp := ss.Spans().AppendEmpty()
				sp.SetName("a")
				if i == 5 || i == 9 {
					fillAttrs(10, sp.Attributes())
				} else {
					sp.Attributes().PutInt("k", 1)
				}
			}
		}
		return td
	}
	for _, g := range l.Groups {
		rs := td.ResourceSpans().AppendEmpty()
		rs.SetSchemaUrl(fillRes(g.R, rs.Resource()))
		for _, s := range g.Scopes {
			ss := rs.ScopeSpans().AppendEmpty()
			ss.SetSchemaUrl(fillScope(s.S, ss.Scope()))
			for _, it := range s.Items {
				fillSpan(it, ss.Spans().AppendEmpty())
			}
		}
	}
	return td
}

// putAllAttrs gives one item a distinct value of every attribute type, so
// every dictionary column of the attribute record moves in the same batch.
func putAllAttrs(m pcommon.Map, val string, n int) {
	m.PutStr("s", val)
	m.PutInt("i", int64(1000000+n))
	m.PutDouble("d", float64(n)+0.5)
	m.PutEmptyBytes("b").FromRaw([]byte(val))
	m.PutEmptyMap("m").PutStr("x", val)
	m.PutEmptySlice("l").AppendEmpty().SetStr(val)
}

func rampTraces(td ptrace.Traces, r *Ramp) {
	if r.Kind == "containers" {
		// every value is a resource + scope of its own: nested dictionary columns of the main
		// record (resource.schema_url, scope.name, scope.version, schema_url, status.status_message)
		for v := 0; v < r.N; v++ {
			val := fmt.Sprintf("v%06d", r.Base+v)
			rs := td.ResourceSpans().AppendEmpty()
			rs.SetSchemaUrl("ru" + val)
			rs.Resource().SetDroppedAttributesCount(uint32(v + 1))
			ss := rs.ScopeSpans().AppendEmpty()
			ss.SetSchemaUrl("su" + val)
			ss.Scope().SetName("sn" + val)
			ss.Scope().SetVersion("sv" + val)
			for u := 0; u < r.Uses; u++ {
				sp := ss.Spans().AppendEmpty()
				sp.SetName("a")
				sp.TraceState().FromRaw("ts" + val)
				sp.Status().SetMessage("sm" + val)
			}
		}
		return
	}
	ss := td.ResourceSpans().AppendEmpty().ScopeSpans().AppendEmpty()
	n := 0
	for v := 0; v < r.N; v++ {
		for u := 0; u < r.Uses; u++ {
			sp := ss.Spans().AppendEmpty()
			sp.SetTraceID(tid(1))
			sp.SetSpanID(sid(byte(1 + n%250)))
			n++
			val := fmt.Sprintf("v%06d", r.Base+v)
			switch r.Kind {
			case "names":
				sp.SetName(val)
			case "attrs":
				sp.SetName("a")
				sp.Attributes().PutStr("k", val)
				sp.Attributes().PutInt("ki", int64(r.Base+v))
			case "ids":
				sp.SetName("a")
				var t pcommon.TraceID
				copy(t[:], val)
				sp.SetTraceID(t)
			case "events":
				sp.SetName("a")
				e := sp.Events().AppendEmpty()
				e.SetName(val)
				e.Attributes().PutStr("ek", val)
			case "allattrs":
				sp.SetName("a")
				putAllAttrs(sp.Attributes(), val, r.Base+v)
			case "allattrs32":
				sp.SetName("a")
				putAllAttrs(sp.Events().AppendEmpty().Attributes(), val, r.Base+v)
				putAllAttrs(sp.Links().AppendEmpty().Attributes(), val, r.Base+v)
			}
		}
	}
}

// ---- logs ----------------------------------------------------------------------

const NumLog = 28

func fillLog(i int, lr plog.LogRecord) {
	if i >= WildBase {
		wildLog(i, lr)
		return
	}
	switch i {
	case 0: // nothing set: body unset
	case 1: // every optional scalar
		lr.SetTimestamp(100)
		lr.SetObservedTimestamp(200)
		lr.SetTraceID(tid(1))
		lr.SetSpanID(sid(1))
		lr.SetSeverityNumber(plog.SeverityNumberInfo)
		lr.SetSeverityText("INFO")
		lr.Body().SetStr("body")
		lr.SetDroppedAttributesCount(5)
		lr.SetFlags(plog.DefaultLogRecordFlags.WithIsSampled(true))
	case 2:
		lr.Body().SetStr("")
	case 3:
		lr.Body().SetInt(7)
	case 4:
		lr.Body().SetInt(0)
	case 5:
		lr.Body().SetDouble(1.5)
	case 6:
		lr.Body().SetDouble(0)
	case 7:
		lr.Body().SetBool(true)
	case 8:
		lr.Body().SetBool(false)
	case 9:
		lr.Body().SetEmptyBytes().FromRaw([]byte{1})
	case 10:
		lr.Body().SetEmptyBytes()
	case 11:
		sl := lr.Body().SetEmptySlice()
		sl.AppendEmpty().SetStr("x")
		sl.AppendEmpty().SetEmptyBytes()
		sl.AppendEmpty()
	case 12:
		m := lr.Body().SetEmptyMap()
		m.PutStr("k", "v")
		m.PutEmpty("u")
	case 13:
		lr.Body().SetEmptySlice()
	case 14:
		lr.Body().SetEmptyMap()
	case 15: // attrs of each type, trace id 2
		lr.SetTraceID(tid(2))
		fillAttrs(1, lr.Attributes())
	case 16:
		fillAttrs(2, lr.Attributes())
	case 17:
		fillAttrs(3, lr.Attributes())
		lr.SetTraceID(tid(2))
	case 18:
		fillAttrs(4, lr.Attributes())
	case 19:
		fillAttrs(5, lr.Attributes())
		lr.SetTraceID(tid(1))
	case 20: // boundary
		lr.SetTimestamp(math.MaxInt64)
		lr.SetObservedTimestamp(math.MaxInt64)
		lr.SetSeverityNumber(plog.SeverityNumberFatal4)
		lr.SetDroppedAttributesCount(math.MaxUint32)
		lr.SetFlags(plog.LogRecordFlags(math.MaxUint32))
		lr.Body().SetStr("body")
	case 21:
		fillAttrs(6, lr.Attributes())
		lr.Body().SetStr("1")
	case 22: // single attribute, equal across records
		fillAttrs(7, lr.Attributes())
	case 25: // large body and attributes
		lr.Body().SetStr(strings.Repeat("b", 70000))
		lr.SetSeverityText(strings.Repeat("s", 70000))
		fillAttrs(11, lr.Attributes())
	case 24:
		fillAttrs(10, lr.Attributes())
	case 26: // numeric extremes
		lr.SetTimestamp(pcommon.Timestamp(math.MaxUint64))
		lr.SetObservedTimestamp(pcommon.Timestamp(1 << 63))
		lr.SetDroppedAttributesCount(math.MaxUint32)
		lr.SetFlags(plog.LogRecordFlags(math.MaxUint32))
		lr.SetSeverityNumber(plog.SeverityNumber(math.MaxInt32))
		lr.Body().SetInt(math.MinInt64)
		lr.Attributes().PutInt("imin", math.MinInt64)
		lr.Attributes().PutInt("imax", math.MaxInt64)
		lr.Attributes().PutDouble("dinf", math.Inf(1))
		lr.Attributes().PutDouble("dninf", math.Inf(-1))
		lr.Attributes().PutDouble("dmax", math.MaxFloat64)
	case 27: // invalid UTF-8 in body, severity text and attribute values
		lr.Body().SetStr("b\xff")
		lr.SetSeverityText("\xfe")
		lr.Attributes().PutStr("k", "\xe9t\xe9")
		lr.Attributes().PutStr("t", "abc\xe2\x82")
	case 23: // negative numbers
		lr.Body().SetDouble(-1.5)
		lr.Attributes().PutInt("n", -7)
		lr.Attributes().PutDouble("d", -0.5)
	}
}

func (l Letter) BuildLogs() plog.Logs {
	ld := plog.NewLogs()
	if l.Mix != nil {
		rl := ld.ResourceLogs().AppendEmpty()
		sl := rl.ScopeLogs().AppendEmpty()
		for i := 0; i < l.Mix.count(); i++ {
			j := i + l.Mix.Rot
			switch l.Mix.Level {
			case "resource":
				if i > 0 {
					rl = ld.ResourceLogs().AppendEmpty()
					sl = rl.ScopeLogs().AppendEmpty()
				}
				putMixValue(rl.Resource().Attributes(), j)
			case "scope":
				if i > 0 {
					sl = rl.ScopeLogs().AppendEmpty()
				}
				putMixValue(sl.Scope().Attributes(), j)
			}
			lr := sl.LogRecords().AppendEmpty()
			lr.SetTimestamp(pcommon.Timestamp(100 + i))
			lr.Body().SetStr(fmt.Sprintf("b%d", i))
			if l.Mix.Level == "item" || l.Mix.Level == "sub" {
				putMixValue(lr.Attributes(), j)
			}
		}
		return ld
	}
	if l.Big != nil {
		switch l.Big.Kind {
		case "items":
			sl := ld.ResourceLogs().AppendEmpty().ScopeLogs().AppendEmpty()
			sl.LogRecords().EnsureCapacity(l.Big.N)
			for i := 0; i < l.Big.N; i++ {
				sl.LogRecords().AppendEmpty().Attributes().PutInt("k", 1)
			}
		case "resources":
			for i := 0; i < l.Big.N; i++ {
				rl := ld.ResourceLogs().AppendEmpty()
				rl.Resource().SetDroppedAttributesCount(uint32(i + 1))
				rl.ScopeLogs().AppendEmpty().LogRecords().AppendEmpty().Body().SetStr("b")
			}
		case "scopes":
			rl := ld.ResourceLogs().AppendEmpty()
			for i := 0; i < l.Big.N; i++ {
				sl := rl.ScopeLogs().AppendEmpty()
				sl.Scope().SetDroppedAttributesCount(uint32(i + 1))
				sl.LogRecords().AppendEmpty().Body().SetStr("b")
			}
		case "resattrs": // as for traces, but a bytes value: the shared RESOURCE_ATTRS payload type needs another schema
			for i := 0; i < l.Big.N; i++ {
				rl := ld.ResourceLogs().AppendEmpty()
				rl.Resource().Attributes().PutEmptyBytes("a").FromRaw([]byte(fmt.Sprintf("%0200d", i)))
				rl.ScopeLogs().AppendEmpty().LogRecords().AppendEmpty().Body().SetStr("b")
			}
		case "items-skipattrs":
			sl := ld.ResourceLogs().AppendEmpty().ScopeLogs().AppendEmpty()
			sl.LogRecords().EnsureCapacity(l.Big.N)
			for i := 0; i < l.Big.N; i++ {
				lr := sl.LogRecords().AppendEmpty()
				if i == 5 || i == 9 {
					fillAttrs(10, lr.Attributes())
				} else {
					lr.Attributes().PutInt("k", 1)
				}
			}
		}
		return ld
	}
	if l.Ramp != nil && l.Ramp.Kind == "containers" {
		r := l.Ramp
		for v := 0; v < r.N; v++ {
			val := fmt.Sprintf("v%06d", r.Base+v)
			rl := ld.ResourceLogs().AppendEmpty()
			rl.SetSchemaUrl("ru" + val)
			rl.Resource().SetDroppedAttributesCount(uint32(v + 1))
			sl := rl.ScopeLogs().AppendEmpty()
			sl.SetSchemaUrl("su" + val)
			sl.Scope().SetName("sn" + val)
			sl.Scope().SetVersion("sv" + val)
			for u := 0; u < r.Uses; u++ {
				lr := sl.LogRecords().AppendEmpty()
				lr.SetSeverityText("st" + val)
				lr.SetEventName("en" + val)
			}
		}
		return ld
	}
	if l.Ramp != nil {
		sl := ld.ResourceLogs().AppendEmpty().ScopeLogs().AppendEmpty()
		r := l.Ramp
		for v := 0; v < r.N; v++ {
			for u := 0; u < r.Uses; u++ {
				lr := sl.LogRecords().AppendEmpty()
				val := fmt.Sprintf("v%06d", r.Base+v)
				switch r.Kind {
				case "bodies":
					lr.Body().SetStr(val)
				case "attrs":
					lr.Body().SetStr("b")
					lr.Attributes().PutStr("k", val)
					lr.Attributes().PutInt("ki", int64(r.Base+v))
				case "names":
					lr.SetSeverityText(val)
				case "ids":
					var t pcommon.TraceID
					copy(t[:], val)
					lr.SetTraceID(t)
				}
			}
		}
		return ld
	}
	for _, g := range l.Groups {
		rl := ld.ResourceLogs().AppendEmpty()
		rl.SetSchemaUrl(fillRes(g.R, rl.Resource()))
		for _, s := range g.Scopes {
			sl := rl.ScopeLogs().AppendEmpty()
			sl.SetSchemaUrl(fillScope(s.S, sl.Scope()))
			for _, it := range s.Items {
				fillLog(it, sl.LogRecords().AppendEmpty())
			}
		}
	}
	return ld
}

// ---- metrics ---------------------------------------------------------------------

const NumMetric = 59

func exemplar(e pmetric.Exemplar, kind int) {
	switch kind {
	case 0: // neither value, zero ids
	case 1:
		e.SetIntValue(3)
		e.SetTimestamp(11)
		e.SetTraceID(tid(4))
		e.SetSpanID(sid(4))
	case 2:
		e.SetDoubleValue(2.5)
		fillAttrs(5, e.FilteredAttributes())
	case 3:
		e.SetIntValue(0)
	case 4:
		e.SetDoubleValue(0)
		fillAttrs(1, e.FilteredAttributes())
	}
}

func fillMetric(i int, m pmetric.Metric) {
	if i >= WildBase {
		wildMetric(i, m)
		return
	}
	m.SetName("m")
	switch i {
	case 0: // empty type, name only
	case 1: // empty type with description and unit
		m.SetDescription("desc")
		m.SetUnit("By")
	case 2: // gauge, no points
		m.SetEmptyGauge()
	case 3: // gauge, int 0
		m.SetEmptyGauge().DataPoints().AppendEmpty().SetIntValue(0)
	case 4: // gauge, double 0.0
		m.SetEmptyGauge().DataPoints().AppendEmpty().SetDoubleValue(0)
	case 5: // gauge, neither
		m.SetEmptyGauge().DataPoints().AppendEmpty()
	case 6: // gauge, two points, all fields
		g := m.SetEmptyGauge()
		dp := g.DataPoints().AppendEmpty()
		dp.SetIntValue(5)
		dp.SetStartTimestamp(1)
		dp.SetTimestamp(2)
		dp.SetFlags(pmetric.DefaultDataPointFlags.WithNoRecordedValue(true))
		fillAttrs(1, dp.Attributes())
		dp = g.DataPoints().AppendEmpty()
		dp.SetDoubleValue(2.5)
		fillAttrs(5, dp.Attributes())
	case 7: // sum unspecified temporality, not monotonic
		m.SetEmptySum().DataPoints().AppendEmpty().SetIntValue(1)
	case 8:
		s := m.SetEmptySum()
		s.SetAggregationTemporality(pmetric.AggregationTemporalityDelta)
		s.SetIsMonotonic(true)
		s.DataPoints().AppendEmpty().SetDoubleValue(1.5)
	case 9:
		s := m.SetEmptySum()
		s.SetAggregationTemporality(pmetric.AggregationTemporalityCumulative)
		s.DataPoints().AppendEmpty().SetIntValue(2)
		m.SetUnit("1")
	case 10: // sum, no points, monotonic
		m.SetEmptySum().SetIsMonotonic(true)
	case 11: // number exemplars: none value / int / double with attrs
		dp := m.SetEmptyGauge().DataPoints().AppendEmpty()
		dp.SetIntValue(1)
		exemplar(dp.Exemplars().AppendEmpty(), 0)
		exemplar(dp.Exemplars().AppendEmpty(), 1)
		exemplar(dp.Exemplars().AppendEmpty(), 2)
	case 12: // two points with exemplars each (linkage)
		g := m.SetEmptyGauge()
		dp := g.DataPoints().AppendEmpty()
		dp.SetIntValue(1)
		exemplar(dp.Exemplars().AppendEmpty(), 1)
		dp = g.DataPoints().AppendEmpty()
		dp.SetIntValue(2)
		exemplar(dp.Exemplars().AppendEmpty(), 2)
		exemplar(dp.Exemplars().AppendEmpty(), 3)
	case 13: // histogram: count 0, nothing else
		h := m.SetEmptyHistogram()
		h.DataPoints().AppendEmpty()
	case 14: // histogram all-zero bucket list [0,0], bounds [0]
		dp := m.SetEmptyHistogram().DataPoints().AppendEmpty()
		dp.BucketCounts().FromRaw([]uint64{0, 0})
		dp.ExplicitBounds().FromRaw([]float64{0})
	case 15: // bucket [0]
		dp := m.SetEmptyHistogram().DataPoints().AppendEmpty()
		dp.BucketCounts().FromRaw([]uint64{0})
	case 16: // [1,0], bounds [1], sum/min/max present and non-zero
		h := m.SetEmptyHistogram()
		h.SetAggregationTemporality(pmetric.AggregationTemporalityDelta)
		dp := h.DataPoints().AppendEmpty()
		dp.SetCount(1)
		dp.BucketCounts().FromRaw([]uint64{1, 0})
		dp.ExplicitBounds().FromRaw([]float64{1})
		dp.SetSum(1.5)
		dp.SetMin(1.5)
		dp.SetMax(1.5)
		dp.SetStartTimestamp(3)
		dp.SetTimestamp(4)
		dp.SetFlags(pmetric.DefaultDataPointFlags.WithNoRecordedValue(true))
		fillAttrs(1, dp.Attributes())
		exemplar(dp.Exemplars().AppendEmpty(), 2)
	case 17: // present-but-zero sum, min, max
		dp := m.SetEmptyHistogram().DataPoints().AppendEmpty()
		dp.SetCount(2)
		dp.SetSum(0)
		dp.SetMin(0)
		dp.SetMax(0)
	case 18: // sum present, min/max absent
		dp := m.SetEmptyHistogram().DataPoints().AppendEmpty()
		dp.SetSum(2)
	case 19: // min only zero, max non-zero
		dp := m.SetEmptyHistogram().DataPoints().AppendEmpty()
		dp.SetMin(0)
		dp.SetMax(3)
	case 20: // histogram, no points, cumulative
		m.SetEmptyHistogram().SetAggregationTemporality(pmetric.AggregationTemporalityCumulative)
	case 21: // exp histogram, everything zero
		m.SetEmptyExponentialHistogram().DataPoints().AppendEmpty()
	case 22: // exp histogram, zero offsets with buckets [0]
		dp := m.SetEmptyExponentialHistogram().DataPoints().AppendEmpty()
		dp.Positive().BucketCounts().FromRaw([]uint64{0})
		dp.Negative().BucketCounts().FromRaw([]uint64{0})
	case 23: // exp histogram full
		e := m.SetEmptyExponentialHistogram()
		e.SetAggregationTemporality(pmetric.AggregationTemporalityCumulative)
		dp := e.DataPoints().AppendEmpty()
		dp.SetCount(4)
		dp.SetScale(-1)
		dp.SetZeroCount(1)
		dp.Positive().SetOffset(3)
		dp.Positive().BucketCounts().FromRaw([]uint64{2})
		dp.Negative().SetOffset(-3)
		dp.Negative().BucketCounts().FromRaw([]uint64{1, 0, 2})
		dp.SetSum(9)
		dp.SetMin(-2)
		dp.SetMax(5)
		dp.SetStartTimestamp(5)
		dp.SetTimestamp(6)
		dp.SetFlags(pmetric.DefaultDataPointFlags.WithNoRecordedValue(true))
		fillAttrs(5, dp.Attributes())
		exemplar(dp.Exemplars().AppendEmpty(), 1)
	case 24: // exp histogram present-but-zero sum/min/max, positive offset only
		dp := m.SetEmptyExponentialHistogram().DataPoints().AppendEmpty()
		dp.SetSum(0)
		dp.SetMin(0)
		dp.SetMax(0)
		dp.Positive().SetOffset(3)
	case 25: // summary no quantiles
		m.SetEmptySummary().DataPoints().AppendEmpty()
	case 26: // summary quantile (0,0)
		dp := m.SetEmptySummary().DataPoints().AppendEmpty()
		dp.QuantileValues().AppendEmpty()
	case 27: // summary full
		dp := m.SetEmptySummary().DataPoints().AppendEmpty()
		dp.SetCount(3)
		dp.SetSum(4.5)
		dp.SetStartTimestamp(7)
		dp.SetTimestamp(8)
		dp.SetFlags(pmetric.DefaultDataPointFlags.WithNoRecordedValue(true))
		q := dp.QuantileValues().AppendEmpty()
		q.SetQuantile(0.5)
		q.SetValue(1)
		q = dp.QuantileValues().AppendEmpty()
		q.SetQuantile(0.99)
		q.SetValue(2)
		fillAttrs(1, dp.Attributes())
	case 28: // summary, no points
		m.SetEmptySummary()
	case 29: // two summaries' worth: two points with quantiles each (linkage)
		s := m.SetEmptySummary()
		dp := s.DataPoints().AppendEmpty()
		dp.QuantileValues().AppendEmpty().SetQuantile(0.1)
		dp = s.DataPoints().AppendEmpty()
		q := dp.QuantileValues().AppendEmpty()
		q.SetQuantile(0.9)
		q.SetValue(9)
	case 30: // histogram two points: zero-first then non-zero (column appears mid-batch)
		h := m.SetEmptyHistogram()
		dp := h.DataPoints().AppendEmpty()
		dp.BucketCounts().FromRaw([]uint64{0, 0})
		dp = h.DataPoints().AppendEmpty()
		dp.BucketCounts().FromRaw([]uint64{0, 3})
		dp.ExplicitBounds().FromRaw([]float64{0.5})
	case 31: // histogram exemplars on two points
		h := m.SetEmptyHistogram()
		dp := h.DataPoints().AppendEmpty()
		exemplar(dp.Exemplars().AppendEmpty(), 1)
		dp = h.DataPoints().AppendEmpty()
		exemplar(dp.Exemplars().AppendEmpty(), 0)
		exemplar(dp.Exemplars().AppendEmpty(), 4)
	case 32: // exp histogram exemplars on two points
		h := m.SetEmptyExponentialHistogram()
		dp := h.DataPoints().AppendEmpty()
		exemplar(dp.Exemplars().AppendEmpty(), 2)
		dp = h.DataPoints().AppendEmpty()
		dp.SetZeroCount(2)
		exemplar(dp.Exemplars().AppendEmpty(), 3)
	case 33: // name differs, double NaN value
		m.SetName("m2")
		m.SetEmptyGauge().DataPoints().AppendEmpty().SetDoubleValue(math.NaN())
	case 34: // boundary values
		dp := m.SetEmptySum().DataPoints().AppendEmpty()
		dp.SetIntValue(math.MinInt64)
		dp.SetStartTimestamp(math.MaxInt64)
		dp.SetTimestamp(math.MaxInt64)
		dp.SetFlags(pmetric.DataPointFlags(math.MaxUint32))
	case 35: // gauge point with attrs of normalisation set
		dp := m.SetEmptyGauge().DataPoints().AppendEmpty()
		dp.SetIntValue(1)
		fillAttrs(3, dp.Attributes())
	case 36: // gauge points with type-confusable attrs
		g := m.SetEmptyGauge()
		dp := g.DataPoints().AppendEmpty()
		dp.SetIntValue(1)
		fillAttrs(6, dp.Attributes())
		dp = g.DataPoints().AppendEmpty()
		dp.SetIntValue(1)
		fillAttrs(7, dp.Attributes())
	case 37: // explicit bounds only
		dp := m.SetEmptyHistogram().DataPoints().AppendEmpty()
		dp.ExplicitBounds().FromRaw([]float64{0, 1})
	case 38: // exp histogram negative buckets only, scale positive
		dp := m.SetEmptyExponentialHistogram().DataPoints().AppendEmpty()
		dp.SetScale(3)
		dp.Negative().BucketCounts().FromRaw([]uint64{2})
	case 39: // same name as others, description only differs
		m.SetDescription("other")
		m.SetEmptyGauge().DataPoints().AppendEmpty().SetIntValue(1)
	case 40: // three points, each with the same single attribute
		g := m.SetEmptyGauge()
		for k := 0; k < 3; k++ {
			dp := g.DataPoints().AppendEmpty()
			dp.SetIntValue(int64(k))
			fillAttrs(7, dp.Attributes())
		}
	case 51, 52, 55: // gauge: four points whose exemplars carry the same value (51 int, 52 double; 55: the run is broken once)
		g := m.SetEmptyGauge()
		for k := 0; k < 4; k++ {
			dp := g.DataPoints().AppendEmpty()
			dp.SetIntValue(int64(10 + k))
			dp.SetTimestamp(pcommon.Timestamp(100 + k))
			e := dp.Exemplars().AppendEmpty()
			e.SetTimestamp(pcommon.Timestamp(200 + k))
			switch {
			case i == 52:
				e.SetDoubleValue(1.5)
			case i == 55 && k == 2:
				e.SetIntValue(8)
			default:
				e.SetIntValue(7)
			}
		}
	case 53: // histogram: four points, equal int exemplars
		h := m.SetEmptyHistogram()
		for k := 0; k < 4; k++ {
			dp := h.DataPoints().AppendEmpty()
			dp.SetCount(uint64(k + 1))
			dp.SetTimestamp(pcommon.Timestamp(100 + k))
			e := dp.Exemplars().AppendEmpty()
			e.SetTimestamp(pcommon.Timestamp(200 + k))
			e.SetIntValue(7)
		}
	case 54: // exponential histogram: four points, equal double exemplars
		h := m.SetEmptyExponentialHistogram()
		for k := 0; k < 4; k++ {
			dp := h.DataPoints().AppendEmpty()
			dp.SetCount(uint64(k + 1))
			dp.SetTimestamp(pcommon.Timestamp(100 + k))
			e := dp.Exemplars().AppendEmpty()
			e.SetTimestamp(pcommon.Timestamp(200 + k))
			e.SetDoubleValue(1.5)
		}
	case 50: // summary with quantiles in descending order, two points
		sm := m.SetEmptySummary()
		for k := 0; k < 2; k++ {
			dp := sm.DataPoints().AppendEmpty()
			dp.SetCount(uint64(k + 1))
			q := dp.QuantileValues().AppendEmpty()
			q.SetQuantile(0.99)
			q.SetValue(9)
			q = dp.QuantileValues().AppendEmpty()
			q.SetQuantile(0.5)
			q.SetValue(5)
			q = dp.QuantileValues().AppendEmpty()
			q.SetQuantile(0.9)
			q.SetValue(7)
		}
	case 47: // exp histogram mirror of 41: same exemplar attribute value types as the histogram's
		h := m.SetEmptyExponentialHistogram()
		for k := 0; k < 3; k++ {
			dp := h.DataPoints().AppendEmpty()
			dp.SetCount(uint64(k + 1))
			fillAttrs(7, dp.Attributes())
			e := dp.Exemplars().AppendEmpty()
			e.SetIntValue(int64(k + 1))
			fillAttrs(7, e.FilteredAttributes())
		}
	case 48: // NaN exemplars on different points, the first not on point 0
		g := m.SetEmptyGauge()
		g.DataPoints().AppendEmpty().SetIntValue(1)
		for k := 0; k < 2; k++ {
			dp := g.DataPoints().AppendEmpty()
			dp.SetIntValue(int64(k + 2))
			dp.Exemplars().AppendEmpty().SetDoubleValue(math.NaN())
		}
	case 49: // 0.0 and -0.0 exemplars on different points
		g := m.SetEmptyGauge()
		for k := 0; k < 3; k++ {
			dp := g.DataPoints().AppendEmpty()
			dp.SetIntValue(int64(k))
			v := 0.0
			if k == 1 {
				v = math.Copysign(0, -1)
			}
			dp.Exemplars().AppendEmpty().SetDoubleValue(v)
		}
	case 46: // large descriptor strings and attributes, many buckets
		m.SetDescription(strings.Repeat("d", 70000))
		m.SetUnit(strings.Repeat("u", 70000))
		dp := m.SetEmptyHistogram().DataPoints().AppendEmpty()
		dp.SetCount(1)
		bc := make([]uint64, 2000)
		bc[1999] = 1
		dp.BucketCounts().FromRaw(bc)
		dp.ExplicitBounds().FromRaw(make([]float64, 1999))
		fillAttrs(11, dp.Attributes())
	case 45: // point and exemplar attribute maps whose entries are all dropped
		dp := m.SetEmptyGauge().DataPoints().AppendEmpty()
		dp.SetIntValue(1)
		fillAttrs(10, dp.Attributes())
		e := dp.Exemplars().AppendEmpty()
		e.SetIntValue(2)
		fillAttrs(10, e.FilteredAttributes())
	case 42: // negative values before any positive one: summary sum and quantile value
		dp := m.SetEmptySummary().DataPoints().AppendEmpty()
		dp.SetCount(1)
		dp.SetSum(-4.5)
		q := dp.QuantileValues().AppendEmpty()
		q.SetQuantile(0.5)
		q.SetValue(-1.5)
	case 43: // negative explicit bounds, negative sum/min/max
		dp := m.SetEmptyHistogram().DataPoints().AppendEmpty()
		dp.SetCount(3)
		dp.BucketCounts().FromRaw([]uint64{1, 1, 1})
		dp.ExplicitBounds().FromRaw([]float64{-2, -1})
		dp.SetSum(-3)
		dp.SetMin(-2.5)
		dp.SetMax(-0.5)
	case 44: // negative number points and exemplar values
		g := m.SetEmptyGauge()
		dp := g.DataPoints().AppendEmpty()
		dp.SetDoubleValue(-1.5)
		e := dp.Exemplars().AppendEmpty()
		e.SetDoubleValue(-2.5)
		dp = g.DataPoints().AppendEmpty()
		dp.SetIntValue(-3)
		dp.Exemplars().AppendEmpty().SetIntValue(-4)
	case 56: // numeric extremes on number points and their exemplars
		g := m.SetEmptySum()
		g.SetAggregationTemporality(pmetric.AggregationTemporalityDelta)
		dp := g.DataPoints().AppendEmpty()
		dp.SetStartTimestamp(pcommon.Timestamp(1 << 63))
		dp.SetTimestamp(pcommon.Timestamp(math.MaxUint64))
		dp.SetFlags(pmetric.DataPointFlags(math.MaxUint32))
		dp.SetIntValue(math.MinInt64)
		e := dp.Exemplars().AppendEmpty()
		e.SetTimestamp(pcommon.Timestamp(math.MaxUint64))
		e.SetIntValue(math.MaxInt64)
		dp = g.DataPoints().AppendEmpty()
		dp.SetDoubleValue(math.Inf(-1))
		dp.SetTimestamp(pcommon.Timestamp(1<<63 + 1))
		e = dp.Exemplars().AppendEmpty()
		e.SetDoubleValue(math.Inf(1))
		e.SetTimestamp(pcommon.Timestamp(1 << 63))
	case 57: // numeric extremes on histograms, exponential histograms are in 58
		dp := m.SetEmptyHistogram().DataPoints().AppendEmpty()
		dp.SetStartTimestamp(pcommon.Timestamp(math.MaxUint64))
		dp.SetTimestamp(pcommon.Timestamp(1 << 63))
		dp.SetCount(math.MaxUint64)
		dp.BucketCounts().FromRaw([]uint64{math.MaxUint64, 0, 1 << 63})
		dp.ExplicitBounds().FromRaw([]float64{math.Inf(-1), math.MaxFloat64})
		dp.SetSum(math.Inf(1))
		dp.SetMin(math.Inf(-1))
		dp.SetMax(math.MaxFloat64)
		dp.SetFlags(pmetric.DataPointFlags(math.MaxUint32))
		sdp := m.Histogram().DataPoints().AppendEmpty()
		sdp.SetCount(1 << 63)
	case 58:
		dp := m.SetEmptyExponentialHistogram().DataPoints().AppendEmpty()
		dp.SetTimestamp(pcommon.Timestamp(math.MaxUint64))
		dp.SetCount(math.MaxUint64)
		dp.SetZeroCount(math.MaxUint64)
		dp.SetScale(math.MinInt32)
		dp.Positive().SetOffset(math.MaxInt32)
		dp.Positive().BucketCounts().FromRaw([]uint64{math.MaxUint64})
		dp.Negative().SetOffset(math.MinInt32)
		dp.Negative().BucketCounts().FromRaw([]uint64{1 << 63, 1})
		dp.SetSum(math.Inf(-1))
		dp = m.ExponentialHistogram().DataPoints().AppendEmpty()
		dp.SetScale(math.MaxInt32)
		sm := dp.Exemplars().AppendEmpty()
		sm.SetTimestamp(pcommon.Timestamp(1 << 63))
		sm.SetDoubleValue(math.MaxFloat64)
	case 41: // histogram points with equal single attribute and exemplars with equal single attribute
		h := m.SetEmptyHistogram()
		for k := 0; k < 3; k++ {
			dp := h.DataPoints().AppendEmpty()
			dp.SetCount(uint64(k + 1))
			fillAttrs(7, dp.Attributes())
			e := dp.Exemplars().AppendEmpty()
			e.SetIntValue(int64(k + 1))
			fillAttrs(7, e.FilteredAttributes())
		}
	}
}

func (l Letter) BuildMetrics() pmetric.Metrics {
	md := pmetric.NewMetrics()
	if l.Mix != nil {
		rm := md.ResourceMetrics().AppendEmpty()
		sm := rm.ScopeMetrics().AppendEmpty()
		for i := 0; i < l.Mix.count(); i++ {
			j := i + l.Mix.Rot
			switch l.Mix.Level {
			case "resource":
				if i > 0 {
					rm = md.ResourceMetrics().AppendEmpty()
					sm = rm.ScopeMetrics().AppendEmpty()
				}
				putMixValue(rm.Resource().Attributes(), j)
			case "scope":
				if i > 0 {
					sm = rm.ScopeMetrics().AppendEmpty()
				}
				putMixValue(sm.Scope().Attributes(), j)
			}
			m := sm.Metrics().AppendEmpty()
			m.SetName(fmt.Sprintf("m%d", i))
			dp := m.SetEmptyGauge().DataPoints().AppendEmpty()
			dp.SetIntValue(int64(i))
			dp.SetTimestamp(pcommon.Timestamp(100 + i))
			switch l.Mix.Level {
			case "item":
				putMixValue(dp.Attributes(), j)
			case "sub":
				e := dp.Exemplars().AppendEmpty()
				e.SetIntValue(int64(i))
				putMixValue(e.FilteredAttributes(), j)
			}
		}
		return md
	}
	if l.Big != nil {
		switch l.Big.Kind {
		case "items": // N metrics with one attribute-bearing point each
			sm := md.ResourceMetrics().AppendEmpty().ScopeMetrics().AppendEmpty()
			sm.Metrics().EnsureCapacity(l.Big.N)
			for i := 0; i < l.Big.N; i++ {
				m := sm.Metrics().AppendEmpty()
				m.SetName("m")
				dp := m.SetEmptyGauge().DataPoints().AppendEmpty()
				dp.SetIntValue(1)
				dp.Attributes().PutInt("k", 1)
			}
		case "resources":
			for i := 0; i < l.Big.N; i++ {
				rm := md.ResourceMetrics().AppendEmpty()
				rm.Resource().SetDroppedAttributesCount(uint32(i + 1))
				rm.ScopeMetrics().AppendEmpty().Metrics().AppendEmpty().SetName("m")
			}
		case "scopes":
			rm := md.ResourceMetrics().AppendEmpty()
			for i := 0; i < l.Big.N; i++ {
				sm := rm.ScopeMetrics().AppendEmpty()
				sm.Scope().SetDroppedAttributesCount(uint32(i + 1))
				sm.Metrics().AppendEmpty().SetName("m")
			}
		case "sub-gauge", "sub-sum", "sub-hist", "sub-ehist", "sub-summary":
			// N data points (32-bit ids) of one kind under two metrics, each point with its own
			// attribute; every 997th point carries an exemplar with an attribute of its own
			sm := md.ResourceMetrics().AppendEmpty().ScopeMetrics().AppendEmpty()
			for mi := 0; mi < 2; mi++ {
				m := sm.Metrics().AppendEmpty()
				m.SetName(fmt.Sprintf("m%d", mi))
				for i := mi; i < l.Big.N; i += 2 {
					switch l.Big.Kind {
					case "sub-gauge", "sub-sum":
						var dp pmetric.NumberDataPoint
						if l.Big.Kind == "sub-gauge" {
							if m.Type() != pmetric.MetricTypeGauge {
								m.SetEmptyGauge()
							}
							dp = m.Gauge().DataPoints().AppendEmpty()
						} else {
							if m.Type() != pmetric.MetricTypeSum {
								m.SetEmptySum()
							}
							dp = m.Sum().DataPoints().AppendEmpty()
						}
						dp.SetIntValue(int64(i))
						dp.Attributes().PutInt("i", int64(i))
						if i%997 == 0 {
							e := dp.Exemplars().AppendEmpty()
							e.SetIntValue(int64(i))
							e.FilteredAttributes().PutInt("e", int64(i))
						}
					case "sub-hist":
						if m.Type() != pmetric.MetricTypeHistogram {
							m.SetEmptyHistogram()
						}
						dp := m.Histogram().DataPoints().AppendEmpty()
						dp.SetCount(uint64(i))
						dp.Attributes().PutInt("i", int64(i))
						if i%997 == 0 {
							e := dp.Exemplars().AppendEmpty()
							e.SetIntValue(int64(i))
							e.FilteredAttributes().PutInt("e", int64(i))
						}
					case "sub-ehist":
						if m.Type() != pmetric.MetricTypeExponentialHistogram {
							m.SetEmptyExponentialHistogram()
						}
						dp := m.ExponentialHistogram().DataPoints().AppendEmpty()
						dp.SetCount(uint64(i))
						dp.Attributes().PutInt("i", int64(i))
						if i%997 == 0 {
							e := dp.Exemplars().AppendEmpty()
							e.SetIntValue(int64(i))
							e.FilteredAttributes().PutInt("e", int64(i))
						}
					case "sub-summary":
						if m.Type() != pmetric.MetricTypeSummary {
							m.SetEmptySummary()
						}
						dp := m.Summary().DataPoints().AppendEmpty()
						dp.SetCount(uint64(i))
						dp.Attributes().PutInt("i", int64(i))
					}
				}
			}
		case "resattrs": // string and int: a third schema for RESOURCE_ATTRS
			for i := 0; i < l.Big.N; i++ {
				rm := md.ResourceMetrics().AppendEmpty()
				rm.Resource().Attributes().PutStr("a", fmt.Sprintf("%0200d", i))
				rm.Resource().Attributes().PutInt("n", int64(i))
				rm.ScopeMetrics().AppendEmpty().Metrics().AppendEmpty().SetName("m")
			}
		case "items-skipattrs":
			sm := md.ResourceMetrics().AppendEmpty().ScopeMetrics().AppendEmpty()
			sm.Metrics().EnsureCapacity(l.Big.N)
			for i := 0; i < l.Big.N; i++ {
				m := sm.Metrics().AppendEmpty()
				m.SetName("m")
				dp := m.SetEmptyGauge().DataPoints().AppendEmpty()
				dp.SetIntValue(1)
				if i == 5 || i == 9 {
					fillAttrs(10, dp.Attributes())
				} else {
					dp.Attributes().PutInt("k", 1)
				}
			}
		}
		return md
	}
	if l.Ramp != nil && l.Ramp.Kind == "containers" {
		r := l.Ramp
		for v := 0; v < r.N; v++ {
			val := fmt.Sprintf("v%06d", r.Base+v)
			rm := md.ResourceMetrics().AppendEmpty()
			rm.SetSchemaUrl("ru" + val)
			rm.Resource().SetDroppedAttributesCount(uint32(v + 1))
			sm := rm.ScopeMetrics().AppendEmpty()
			sm.SetSchemaUrl("su" + val)
			sm.Scope().SetName("sn" + val)
			sm.Scope().SetVersion("sv" + val)
			for u := 0; u < r.Uses; u++ {
				m := sm.Metrics().AppendEmpty()
				m.SetName("m")
				m.SetDescription("d" + val)
				m.SetUnit("u" + val)
				m.SetEmptyGauge().DataPoints().AppendEmpty().SetIntValue(1)
			}
		}
		return md
	}
	if l.Ramp != nil {
		sm := md.ResourceMetrics().AppendEmpty().ScopeMetrics().AppendEmpty()
		r := l.Ramp
		for v := 0; v < r.N; v++ {
			val := fmt.Sprintf("v%06d", r.Base+v)
			for u := 0; u < r.Uses; u++ {
				m := sm.Metrics().AppendEmpty()
				switch r.Kind {
				case "names":
					m.SetName(val)
					m.SetEmptyGauge().DataPoints().AppendEmpty().SetIntValue(1)
				case "attrs":
					m.SetName("m")
					dp := m.SetEmptyGauge().DataPoints().AppendEmpty()
					dp.SetIntValue(1)
					dp.Attributes().PutStr("k", val)
					dp.Attributes().PutInt("ki", int64(r.Base+v))
				case "allattrs", "allattrs32":
					m.SetName("m")
					dp := m.SetEmptyGauge().DataPoints().AppendEmpty()
					dp.SetIntValue(1)
					putAllAttrs(dp.Attributes(), val, r.Base+v)
					if r.Kind == "allattrs32" {
						hp := sm.Metrics().AppendEmpty()
						hp.SetName("h")
						h := hp.SetEmptyHistogram().DataPoints().AppendEmpty()
						h.SetCount(1)
						putAllAttrs(h.Attributes(), val, r.Base+v)
						putAllAttrs(h.Exemplars().AppendEmpty().FilteredAttributes(), val, r.Base+v)
					}
				case "units":
					m.SetName("m")
					m.SetUnit(val)
					m.SetDescription(val)
					m.SetEmptySum().DataPoints().AppendEmpty().SetIntValue(1)
				}
			}
		}
		return md
	}
	for _, g := range l.Groups {
		rm := md.ResourceMetrics().AppendEmpty()
		rm.SetSchemaUrl(fillRes(g.R, rm.Resource()))
		for _, s := range g.Scopes {
			sm := rm.ScopeMetrics().AppendEmpty()
			sm.SetSchemaUrl(fillScope(s.S, sm.Scope()))
			for _, it := range s.Items {
				fillMetric(it, sm.Metrics().AppendEmpty())
			}
		}
	}
	return md
}

// helpers to write letters compactly
func one(sig string, r, s int, items ...int) Letter {
	return Letter{Sig: sig, Groups: []Group{{R: r, Scopes: []Scope{{S: s, Items: items}}}}}
}
