// streammc: explicit-state search over operation histories of the real OTAP
// Producer/Consumer.  A unit is (options, history); every unit runs on a fresh
// stream and the monitors are evaluated on every transition.
package main

import (
	"runtime/debug"
	"strconv"
	"runtime"
	"sync/atomic"
	"syscall"
	"bufio"
	"crypto/sha256"
	"encoding/hex"
	"encoding/json"
	"flag"
	"fmt"
	"os"
	"os/exec"
	"path/filepath"
	"regexp"
	"sort"
	"strings"
	"sync"
	"time"
)

type Unit struct {
	Opts    Options  `json:"opts"`
	History []Letter `json:"history"`
	Mon     Monitors `json:"mon"`
	Tag     string   `json:"tag"` // which layer generated it
	// Pipelined: all batches are encoded first, then decoded in order.
	Pipelined bool `json:"pipelined,omitempty"`
	// Fault: one injected allocation failure inside the IPC write of a record (C12 batch-id clause)
	Fault *ProdFault `json:"fault,omitempty"`
}

type Finding struct {
	Extra   json.RawMessage `json:"extra,omitempty"`
	Prop    string `json:"prop"`
	Msg     string `json:"msg"`
	Unit    Unit   `json:"unit"` // history truncated to the failing step
	Step    int    `json:"step"`
	Key     string `json:"key"`
	Runaway bool   `json:"runaway,omitempty"` // reported by the non-termination watchdog: confirmed by the parent in a fresh process
}

type WorkerOut struct {
	Counters    map[string]int
	Units       int
	Transitions int
	States      int // distinct (options, history prefix) nodes visited
	WireStates  map[string]bool
	Findings    []Finding
	Events      map[string]int
	MaxDict     int
	Samples     []string
	Layers      map[string]int
}

func unitKey(u Unit, upto int) string {
	var parts []string
	for i := 0; i <= upto && i < len(u.History); i++ {
		parts = append(parts, u.History[i].String())
	}
	f := ""
	if u.Fault != nil {
		f = fmt.Sprintf(" [allocation refused while writing record %d of batch %d]", u.Fault.Record, u.Fault.Step)
	}
	return u.Opts.String() + f + " :: " + strings.Join(parts, " -> ")
}

// msgClass strips the variable part of a message so that one defect seen
// through many inputs is reported once per class.
var hexRe = regexp.MustCompile(`0x[0-9a-f]+|\b[0-9a-f]{16,}\b`)

var numRe = regexp.MustCompile(`\d+`)

func msgClass(m string) string {
	m = firstLine(m)
	if i := strings.Index(m, ": "); i > 0 && i < 80 {
		// keep head + a bit
	}
	if i := strings.Index(m, "; "); i > 0 && strings.Contains(m[:i], "differs in") {
		m = m[:i]
	}
	m = hexRe.ReplaceAllString(m, "#")
	if strings.Contains(m, "limit") {
		m = numRe.ReplaceAllString(m, "#")
	}
	if len(m) > 160 {
		m = m[:160]
	}
	return m
}

// ---- non-termination ----------------------------------------------------------
// One Step is a handful of library calls on a finite batch. A step that burns
// runawayCPU CPU-seconds (CPU time: independent of machine load), or pushes the
// process past runawayMem, does not terminate: the worker cannot go on, so the
// watchdog reports the unit as a violation of the property being checked.

const runawayCPU = 60.0

// runawayMem: per-process cap; the parent divides 48 GiB among its workers
// (never below 4 GiB: the largest legitimate unit stays under 2 GiB), a replay runs alone with 20 GiB
var runawayMem uint64 = 20 << 30

func init() {
	if v, err := strconv.Atoi(os.Getenv("STREAMMC_MEMCAP_MB")); err == nil && v > 0 {
		runawayMem = uint64(v) << 20
	}
}

var (
	wdProp    string
	wdSeq     atomic.Int64 // bumped at every case boundary
	wdCur     atomic.Pointer[wdCase]
	wdOnce    sync.Once
	onRunaway func(f Finding, out *WorkerOut) // must exit
)

// wdCase: the case in progress, as the finding to report should it never return.
type wdCase struct {
	f   Finding
	out *WorkerOut
}

func wdBegin(f Finding, out *WorkerOut) {
	startUnitWatchdog()
	wdCur.Store(&wdCase{f: f, out: out})
	wdSeq.Add(1)
}

func wdEnd() {
	wdCur.Store(nil)
	wdSeq.Add(1)
}

func procCPU() float64 {
	var ru syscall.Rusage
	if syscall.Getrusage(syscall.RUSAGE_SELF, &ru) != nil {
		return 0
	}
	return float64(ru.Utime.Sec+ru.Stime.Sec) + float64(ru.Utime.Usec+ru.Stime.Usec)/1e6
}

func startUnitWatchdog() {
	wdOnce.Do(func() {
		go func() {
			last, cpu0 := int64(-1), procCPU()
			for {
				time.Sleep(250 * time.Millisecond)
				c := wdCur.Load()
				if n := wdSeq.Load(); n != last || c == nil {
					last, cpu0 = n, procCPU()
					continue
				}
				cpu := procCPU() - cpu0
				var ms runtime.MemStats
				runtime.ReadMemStats(&ms)
				if ms.HeapAlloc > maxHeapSeen.Load() {
					maxHeapSeen.Store(ms.HeapAlloc)
				}
				// HeapAlloc (live objects plus garbage not yet swept), not Sys: Sys also
				// counts memory of earlier units that the runtime keeps for reuse
				if cpu < runawayCPU && !(ms.HeapAlloc > runawayMem && cpu > 1) {
					continue
				}
				what := "unbounded loop"
				if ms.HeapAlloc > runawayMem {
					what = "unbounded allocation"
				}
				f := c.f
				f.Runaway = true
				f.Msg = fmt.Sprintf("non-termination: this case does not return (%s in the library; a case is stopped after %.0f CPU-seconds or when the process exceeds its memory cap)", what, runawayCPU)
				if onRunaway != nil {
					onRunaway(f, c.out)
				}
				fmt.Fprintf(os.Stderr, "HARNESS-ERROR: %s\n", f.Msg)
				os.Exit(2)
			}
		}()
	})
}

// productPanic: a panic that escaped every guarded call (constructors, option
// handling). If its innermost non-runtime frame is library code it is reported
// as a finding of the property being checked; the worker cannot continue.
func productPanic(r any, stack []byte) (Finding, bool) {
	lines := strings.Split(string(stack), "\n")
	for _, l := range lines {
		l = strings.TrimSpace(l)
		if !strings.Contains(l, "(") || strings.HasPrefix(l, "/") || strings.HasPrefix(l, "goroutine ") {
			continue
		}
		if strings.HasPrefix(l, "runtime") || strings.HasPrefix(l, "panic(") || strings.HasPrefix(l, "main.productPanic") || strings.HasPrefix(l, "main.main.func") || strings.HasPrefix(l, "main.doReplay.func") {
			continue
		}
		if strings.Contains(l, "zzverif") || strings.HasPrefix(l, "main.") {
			return Finding{}, false
		}
		if strings.Contains(l, "github.com/open-telemetry/otel-arrow/") {
			f := Finding{Prop: wdProp, Key: "outside any encode/decode call", Msg: fmt.Sprintf("library code panicked outside an encode/decode call (constructor, option handling or Close): %v [%s]", r, l)}
			if c := wdCur.Load(); c != nil {
				f.Unit, f.Step, f.Key, f.Extra = c.f.Unit, c.f.Step, c.f.Key, c.f.Extra
			} else if u := lastUnit.Load(); u != nil {
				f.Unit, f.Key = *u, unitKey(*u, len(u.History)-1)
			}
			return f, true
		}
		return Finding{}, false
	}
	return Finding{}, false
}

var maxHeapSeen atomic.Uint64

var lastUnit atomic.Pointer[Unit]
var lastOut atomic.Pointer[WorkerOut]

func runUnits(units []Unit, shard, nshard int) *WorkerOut {
	out := &WorkerOut{WireStates: map[string]bool{}, Events: map[string]int{}, Layers: map[string]int{}}
	defer wdEnd()
	seenNode := map[string]bool{}
	seenFinding := map[string]bool{}
	for idx, u := range units {
		if nshard > 0 && idx%nshard != shard {
			continue
		}
		out.Units++
		out.Layers[u.Tag]++
		uu := u
		lastUnit.Store(&uu)
		lastOut.Store(out)
		st := NewStreamFault(u.Opts, u.Mon, u.Fault)
		st.pipelined = u.Pipelined
		hist := u.History
		if u.Pipelined {
			// second pass over the same letters performs the decodes
			hist = append(append([]Letter{}, u.History...), u.History...)
		}
		for step, l := range hist {
			if u.Pipelined {
				st.phase = step / len(u.History)
				step = step % len(u.History)
			}
			node := unitKey(u, step)
			if !seenNode[node] {
				seenNode[node] = true
				out.States++
			}
			out.Transitions++
			tu0 := u
			tu0.History = u.History[:step+1]
			wdBegin(Finding{Prop: wdProp, Unit: tu0, Step: step, Key: node}, out)
			viol := st.Step(l)
			wdEnd()
			for _, v := range viol {
				k := v.Prop + "|" + node + "|" + msgClass(v.Msg)
				if seenFinding[k] {
					continue
				}
				seenFinding[k] = true
				tu := u
				tu.History = u.History[:step+1]
				out.Findings = append(out.Findings, Finding{Prop: v.Prop, Msg: v.Msg, Unit: tu, Step: step, Key: node})
			}
		}
		for _, v := range st.Close() {
			node := unitKey(u, len(u.History)-1)
			k := v.Prop + "|" + node + "|" + msgClass(v.Msg)
			if !seenFinding[k] {
				seenFinding[k] = true
				out.Findings = append(out.Findings, Finding{Prop: v.Prop, Msg: v.Msg, Unit: u, Step: len(u.History), Key: node})
			}
		}
		for k, n := range st.obs.n {
			out.Events[k] += n
		}
		if st.MaxDict > out.MaxDict {
			out.MaxDict = st.MaxDict
		}
		// wire state key: live schema ids with payload type and schema
		var ws []string
		for id, s := range st.subs {
			if !s.retired {
				ws = append(ws, fmt.Sprintf("%s:%s:%x", id, s.ptype, sha256.Sum256([]byte(s.schema)))[:40])
			}
		}
		sort.Strings(ws)
		out.WireStates[strings.Join(ws, ",")] = true
		if len(out.Samples) < 3 && (idx%997 == 0 || out.Units == 1) {
			out.Samples = append(out.Samples, unitKey(u, len(u.History)-1))
		}
	}
	return out
}

type knownFinding struct {
	Property string `json:"property"`
	Key      string `json:"key"`
	What     string `json:"what"`
	Status   string `json:"status"`
}

func loadKnown(path string) []knownFinding {
	if path == "" {
		return nil
	}
	b, err := os.ReadFile(path)
	if err != nil {
		return nil
	}
	var f struct {
		Findings []knownFinding `json:"findings"`
	}
	if err := json.Unmarshal(b, &f); err != nil {
		fmt.Fprintln(os.Stderr, "HARNESS-ERROR: known findings:", err)
		os.Exit(2)
	}
	return f.Findings
}

type Artefact struct {
	Engine   string `json:"engine"`
	Property string `json:"property"`
	Message  string `json:"message"`
	Unit     Unit   `json:"unit"`
	Extra    json.RawMessage `json:"extra,omitempty"`
}

func main() {
	prop := flag.String("prop", "", "property id")
	tier := flag.String("tier", "quick", "quick|thorough")
	worker := flag.Bool("worker", false, "internal")
	shard := flag.Int("shard", 0, "")
	nshard := flag.Int("nshard", 0, "")
	evidence := flag.String("evidence", "", "")
	replayDir := flag.String("replaydir", "replay", "")
	replay := flag.String("replay", "", "")
	known := flag.String("known", "", "")
	jobs := flag.Int("j", 16, "")
	racepass := flag.Bool("racepass", false, "C16: free-running pass (build with -race)")
	flag.Parse()
	if *racepass {
		os.Exit(racePass(*tier))
	}
	if *replay != "" {
		os.Exit(doReplay(*replay))
	}
	wdProp = *prop
	if *worker {
		defer func() {
			if r := recover(); r != nil {
				f, ok := productPanic(r, debug.Stack())
				if !ok {
					panic(r)
				}
				out := lastOut.Load()
				if c := wdCur.Load(); c != nil && c.out != nil {
					out = c.out
				}
				if out == nil {
					out = &WorkerOut{WireStates: map[string]bool{}, Events: map[string]int{}, Layers: map[string]int{}}
				}
				if out.Counters == nil {
					out.Counters = map[string]int{}
				}
				out.Findings = append(out.Findings, f)
				out.Counters["shards_abandoned_on_non_termination"]++
				b, _ := json.Marshal(out)
				fmt.Println("RESULT " + string(b))
				os.Exit(3)
			}
		}()
		onRunaway = func(f Finding, out *WorkerOut) {
			// the stuck goroutine is inside Step: out is not being written
			out.Findings = append(out.Findings, f)
			if out.Counters == nil {
				out.Counters = map[string]int{}
			}
			out.Counters["shards_abandoned_on_non_termination"]++
			b, _ := json.Marshal(out)
			fmt.Println("RESULT " + string(b))
			os.Exit(3)
		}
	}
	if sw, ok := specialWorkers[*prop]; ok {
		if *worker {
			out := sw(*tier, *shard, *nshard)
			b, _ := json.Marshal(out)
			fmt.Println("RESULT " + string(b))
			return
		}
		os.Exit(parent(*prop, *tier, *jobs, *evidence, *replayDir, *known, *jobs))
	}
	plan, ok := plans[*prop]
	if !ok {
		fmt.Fprintf(os.Stderr, "HARNESS-ERROR: property %q is not served by streammc\n", *prop)
		os.Exit(2)
	}
	units := plan(*tier)
	wdProp = *prop
	if *worker {
		out := runUnits(units, *shard, *nshard)
		if *prop == "C13" {
			if out.Counters == nil {
				out.Counters = map[string]int{}
			}
			dictWorkerPart(*tier, *shard, *nshard, out)
		}
		b, _ := json.Marshal(out)
		fmt.Println("RESULT " + string(b))
		if os.Getenv("STREAMMC_MEMSTAT") != "" {
			fmt.Fprintf(os.Stderr, "MEMSTAT shard %d: max HeapAlloc seen in a case %d MB (cap %d MB)\n", *shard, maxHeapSeen.Load()>>20, runawayMem>>20)
		}
		return
	}
	os.Exit(parent(*prop, *tier, len(units), *evidence, *replayDir, *known, *jobs))
}

func doReplay(path string) (rc int) {
	defer func() {
		if r := recover(); r != nil {
			f, ok := productPanic(r, debug.Stack())
			if !ok {
				panic(r)
			}
			fmt.Printf("[%s] %s\n", f.Prop, f.Msg)
			fmt.Printf("VIOLATION property=%s replay=%s\n", wdProp, path)
			rc = 1
		}
	}()
	b, err := os.ReadFile(path)
	if err != nil {
		fmt.Fprintln(os.Stderr, "HARNESS-ERROR:", err)
		return 2
	}
	var a Artefact
	if err := json.Unmarshal(b, &a); err != nil {
		fmt.Fprintln(os.Stderr, "HARNESS-ERROR:", err)
		return 2
	}
	wdProp = a.Property
	onRunaway = func(f Finding, _ *WorkerOut) {
		fmt.Printf("[%s] %s\n", f.Prop, f.Msg)
		fmt.Printf("VIOLATION property=%s replay=%s\n", a.Property, path)
		os.Exit(1)
	}
	if r, ok := specialReplays[a.Engine]; ok {
		wdBegin(Finding{Prop: a.Property, Unit: a.Unit, Extra: a.Extra}, nil)
		defer wdEnd()
		return r(a, path)
	}
	if a.Unit.Tag == "dictmc" {
		// the BFS over the dictionary state machine is cheap: re-run it and look for the same class of finding
		o := &WorkerOut{WireStates: map[string]bool{}, Events: map[string]int{}, Layers: map[string]int{}, Counters: map[string]int{}}
		dictWorkerPart("quick", 0, 0, o)
		hit := false
		for _, f := range o.Findings {
			if msgClass(f.Msg) == msgClass(a.Message) {
				if !hit {
					fmt.Printf("[C13] %s: %s\n", f.Key, f.Msg)
				}
				hit = true
			}
		}
		if hit {
			fmt.Printf("VIOLATION property=%s replay=%s\n", a.Property, path)
			return 1
		}
		fmt.Println("replay: no violation of", a.Property, "on this tree")
		return 0
	}
	out := runUnits([]Unit{a.Unit}, 0, 0)
	bad := false
	for _, f := range out.Findings {
		fmt.Printf("step %d [%s] %s\n", f.Step, f.Prop, f.Msg)
		if f.Prop == a.Property {
			bad = true
		}
	}
	if bad {
		fmt.Printf("VIOLATION property=%s replay=%s\n", a.Property, path)
		return 1
	}
	fmt.Println("replay: no violation of", a.Property, "on this tree")
	return 0
}

func parent(prop, tier string, nunits int, evidence, replayDir, knownPath string, jobs int) int {
	start := time.Now()
	self, _ := os.Executable()
	n := jobs
	if nunits < n {
		n = nunits
	}
	if n == 0 {
		fmt.Fprintln(os.Stderr, "HARNESS-ERROR: empty plan")
		return 2
	}
	outs := make([]*WorkerOut, n)
	var wg sync.WaitGroup
	var mu sync.Mutex
	fail := false
	for i := 0; i < n; i++ {
		wg.Add(1)
		go func(i int) {
			defer wg.Done()
			cmd := exec.Command(self, "-worker", "-prop", prop, "-tier", tier, "-shard", fmt.Sprint(i), "-nshard", fmt.Sprint(n))
			capMB := 48 * 1024 / n
			if capMB < 4096 {
				capMB = 4096
			}
			cmd.Env = append(os.Environ(), "GOMAXPROCS=2", fmt.Sprintf("STREAMMC_MEMCAP_MB=%d", capMB))
			cmd.Stderr = os.Stderr
			b, err := cmd.Output()
			var o *WorkerOut
			sc := bufio.NewScanner(strings.NewReader(string(b)))
			sc.Buffer(make([]byte, 1<<20), 1<<30)
			for sc.Scan() {
				if strings.HasPrefix(sc.Text(), "RESULT ") {
					o = &WorkerOut{}
					if e := json.Unmarshal([]byte(sc.Text()[7:]), o); e != nil {
						o = nil
					}
				}
			}
			if ee, ok := err.(*exec.ExitError); ok && ee.ExitCode() == 3 && o != nil {
				err = nil // the shard stopped at a non-terminating step and reported it
			}
			if err != nil || o == nil {
				mu.Lock()
				fail = true
				fmt.Fprintf(os.Stderr, "HARNESS-ERROR: worker %d failed: %v\n", i, err)
				mu.Unlock()
				return
			}
			outs[i] = o
		}(i)
	}
	wg.Wait()
	if fail {
		return 2
	}
	var extra map[string]any
	if f, ok := extraCoverage[prop]; ok {
		extra = f(outs)
	}
	return report(prop, tier, outs, evidence, replayDir, knownPath, start, extra)
}

func report(prop, tier string, outs []*WorkerOut, evidence, replayDir, knownPath string, start time.Time, extraCov map[string]any) int {
	known := loadKnown(knownPath)
	tot := &WorkerOut{WireStates: map[string]bool{}, Events: map[string]int{}, Layers: map[string]int{}}
	var findings []Finding
	abandoned := 0
	for _, o := range outs {
		tot.Units += o.Units
		tot.Transitions += o.Transitions
		tot.States += o.States
		for k := range o.WireStates {
			tot.WireStates[k] = true
		}
		for k, v := range o.Events {
			tot.Events[k] += v
		}
		for k, v := range o.Layers {
			tot.Layers[k] += v
		}
		if o.MaxDict > tot.MaxDict {
			tot.MaxDict = o.MaxDict
		}
		findings = append(findings, o.Findings...)
		abandoned += o.Counters["shards_abandoned_on_non_termination"]
		for _, s := range o.Samples {
			if len(tot.Samples) < 4 {
				tot.Samples = append(tot.Samples, s)
			}
		}
	}
	sort.Slice(findings, func(i, j int) bool {
		if len(findings[i].Key) != len(findings[j].Key) {
			return len(findings[i].Key) < len(findings[j].Key)
		}
		return findings[i].Key < findings[j].Key
	})
	os.MkdirAll(replayDir, 0o755)
	notes := map[string]int{}
	classes := map[string]int{}
	var violLines, knownLines []string
	nviol := 0
	for _, f := range findings {
		if f.Prop != prop {
			notes[f.Prop]++
			if os.Getenv("STREAMMC_SHOW_NOTES") != "" {
				fmt.Printf("  note [%s] %s: %s\n", f.Prop, f.Key, trunc(f.Msg, 400))
			}
			continue
		}
		full := f.Key + " | " + f.Msg
		isKnown := false
		for _, k := range known {
			if k.Property == prop && k.Status != "fixed" && k.Key != "" {
				if ok, _ := regexp.MatchString(k.Key, full); ok {
					isKnown = true
					knownLines = append(knownLines, fmt.Sprintf("KNOWN-FINDING: property=%s %s", prop, k.What))
				}
			}
		}
		if isKnown {
			continue
		}
		nviol++
		cls := msgClass(f.Msg)
		classes[cls]++
		if classes[cls] > 2 || len(violLines) >= 12 {
			continue // same class: keep the two shortest inputs only
		}
		h := sha256.Sum256([]byte(full))
		path := filepath.Join(replayDir, fmt.Sprintf("%s-%s.json", prop, hex.EncodeToString(h[:6])))
		eng := "streammc"
		if _, ok := specialWorkers[prop]; ok {
			eng = prop
		}
		b, _ := json.MarshalIndent(Artefact{Engine: eng, Property: prop, Message: f.Msg, Unit: f.Unit, Extra: f.Extra}, "", " ")
		os.WriteFile(path, b, 0o644)
		if f.Runaway {
			// confirm in a fresh process running this unit alone (own CPU clock, 20 GiB cap)
			self, _ := os.Executable()
			c := exec.Command(self, "-replay", path)
			c.Env = append(os.Environ(), "GOMAXPROCS=2", "STREAMMC_MEMCAP_MB=20480")
			if e, ok := c.Run().(*exec.ExitError); !ok || e.ExitCode() != 1 {
				fmt.Fprintf(os.Stderr, "HARNESS-ERROR: non-termination of %s did not reproduce in a fresh process\n", f.Key)
				return 2
			}
		}
		abs, _ := filepath.Abs(path)
		violLines = append(violLines, fmt.Sprintf("VIOLATION property=%s replay=%s", prop, abs))
		fmt.Printf("  [%s] %s\n", f.Key, trunc(f.Msg, 700))
	}
	sort.Strings(knownLines)
	for i, l := range knownLines {
		if i == 0 || l != knownLines[i-1] {
			fmt.Println(l)
		}
	}
	for p, n := range notes {
		fmt.Printf("note: %d finding(s) of %s seen in these runs (reported by that property's own check)\n", n, p)
	}
	wall := time.Since(start).Seconds()
	if evidence != "" {
		var samples []any
		for _, s := range tot.Samples {
			samples = append(samples, s)
		}
		cov := map[string]any{
			"states":                        max1(tot.States),
			"transitions":                   max1(tot.Transitions),
			"traces_validated_against_impl": tot.Units,
			"samples":                       samples,
			"units":                         tot.Units,
			"layers":                        tot.Layers,
			"distinct_wire_states":          len(tot.WireStates),
			"observer_events":               tot.Events,
			"max_dictionary_entries_seen":   tot.MaxDict,
			"violation_classes":             classes,
			"exhaustive":                    abandoned == 0,
			"shards_abandoned_on_non_termination": abandoned,
			"explanation":                   "explicit enumeration of (options, history) units over a fixed archetype alphabet on the real Producer/Consumer; states = distinct (options, history-prefix) nodes, transitions = encode(+decode) steps with all monitors evaluated, traces_validated_against_impl = histories executed on the implementation (no separate model)",
		}
		for k, v := range extraCov {
			cov[k] = v
		}
		ev := map[string]any{"property_id": prop, "tier": tier, "seed": 0, "level": "model_checking", "wall_s": wall, "violations": nviol, "coverage": cov,
			"assumptions": []string{"inputs are drawn from the archetype alphabets of engines/streammc/arch.go (small-scope hypothesis)", "Arrow's ipc.Reader is the independent wire reader", "otlpcanon applies only the documented normalisations"}}
		b, _ := json.MarshalIndent(ev, "", " ")
		os.MkdirAll(filepath.Dir(evidence), 0o755)
		os.WriteFile(evidence, b, 0o644)
	}
	fmt.Printf("%s %s: units=%d states=%d transitions=%d wire_states=%d events=%v maxdict=%d wall=%.1fs\n", prop, tier, tot.Units, tot.States, tot.Transitions, len(tot.WireStates), tot.Events, tot.MaxDict, wall)
	if nviol > 0 {
		fmt.Printf("%d violating (input, message-class) pairs in %d classes\n", nviol, len(classes))
		for c, n := range classes {
			fmt.Printf("  class x%d: %s\n", n, c)
		}
		for _, l := range violLines {
			fmt.Println(l)
		}
		return 1
	}
	return 0
}

func max1(n int) int {
	if n < 1 {
		return 1
	}
	return n
}

var specialWorkers = map[string]func(tier string, shard, nshard int) *WorkerOut{}
var specialReplays = map[string]func(a Artefact, path string) int{}
var extraCoverage = map[string]func(outs []*WorkerOut) map[string]any{}
