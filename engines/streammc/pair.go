package main

// pairmc (C16): all interleavings at API-call granularity of independent
// streams on one goroutine, compared with each stream's solo run; plus a
// free-running pass of the same programs (one goroutine per stream) that the
// check script builds with -race.

import (
	"crypto/sha256"
	"encoding/hex"
	"encoding/json"
	"fmt"
	"os"
	"sort"
	"strings"
	"sync"

	"google.golang.org/protobuf/proto"

	colarspb "github.com/open-telemetry/otel-arrow/api/experimental/arrow/v1"
	"github.com/open-telemetry/otel-arrow/pkg/otel/arrow_record"
)

type Program struct {
	Opts    Options  `json:"opts"`
	History []Letter `json:"history"`
	// ConsLimit > 0: the consumer is created with WithMemoryLimit(ConsLimit)
	ConsLimit uint64 `json:"cons_limit,omitempty"`
	// Damage: the batch DamageAt reaches the consumer damaged (consumer error paths)
	Damage   *Fault `json:"damage,omitempty"`
	DamageAt int    `json:"damage_at,omitempty"`
	// Heavy programs (a batch refused at the id width: producer error paths) take part in the
	// free-running pass and are interleaved with one partner only
	Heavy bool `json:"heavy,omitempty"`
}

func (p Program) String() string {
	s := unitKey(Unit{Opts: p.Opts, History: p.History}, len(p.History)-1)
	if p.ConsLimit > 0 {
		s += fmt.Sprintf(" [consumer limit %d]", p.ConsLimit)
	}
	if p.Damage != nil {
		s += fmt.Sprintf(" [batch %d damaged: %s]", p.DamageAt, p.Damage)
	}
	return s
}

type progRun struct {
	p    Program
	prod *arrow_record.Producer
	cons *arrow_record.Consumer
	bars []*colarspb.BatchArrowRecords
	obs  []string // per call observation
	pc   int
}

func newProgRun(p Program) *progRun {
	var copts []arrow_record.Option
	if p.ConsLimit > 0 {
		copts = append(copts, arrow_record.WithMemoryLimit(p.ConsLimit))
	}
	return &progRun{p: p, prod: arrow_record.NewProducerWithOptions(p.Opts.build()...), cons: arrow_record.NewConsumer(copts...)}
}

func barSig(bar *colarspb.BatchArrowRecords) string {
	var parts []string
	for _, pl := range bar.ArrowPayloads {
		h := sha256.Sum256(pl.Record)
		parts = append(parts, fmt.Sprintf("%s/%s/%s", pl.Type, pl.SchemaId[:min(8, len(pl.SchemaId))], hex.EncodeToString(h[:6])))
	}
	return fmt.Sprintf("batch%d[%s]", bar.BatchId, strings.Join(parts, " "))
}

// step performs the next API call of the program: even pc = encode, odd = decode.
func (r *progRun) step() {
	i := r.pc / 2
	l := r.p.History[i]
	if r.pc%2 == 0 {
		var bar *colarspb.BatchArrowRecords
		var err error
		pan := protect(func() {
			switch l.Sig {
			case "traces":
				bar, err = r.prod.BatchArrowRecordsFromTraces(l.BuildTraces())
			case "logs":
				bar, err = r.prod.BatchArrowRecordsFromLogs(l.BuildLogs())
			default:
				bar, err = r.prod.BatchArrowRecordsFromMetrics(l.BuildMetrics())
			}
		})
		r.bars = append(r.bars, bar)
		switch {
		case pan != "":
			r.obs = append(r.obs, "encode panic: "+firstLine(pan))
		case err != nil:
			r.obs = append(r.obs, "encode error: "+err.Error())
		default:
			r.obs = append(r.obs, "encode "+barSig(bar))
		}
	} else {
		bar := r.bars[i]
		if bar != nil && r.p.Damage != nil && r.p.DamageAt == i {
			bar = proto.Clone(bar).(*colarspb.BatchArrowRecords)
			applyFault(bar, *r.p.Damage, nil)
		}
		if bar == nil {
			r.obs = append(r.obs, "decode skipped")
		} else {
			got, err, pan := decodeCanon(r.cons, l, bar)
			h := sha256.Sum256([]byte(strings.Join(got, "\n")))
			r.obs = append(r.obs, fmt.Sprintf("decode n=%d %s err=%v pan=%v", len(got), hex.EncodeToString(h[:8]), err, firstLine(pan)))
		}
	}
	r.pc++
}

func (r *progRun) done() bool { return r.pc >= 2*len(r.p.History) }
func (r *progRun) close()     { protect(func() { r.prod.Close(); r.cons.Close() }) }

func solo(p Program) []string {
	r := newProgRun(p)
	for !r.done() {
		r.step()
	}
	r.close()
	return r.obs
}

// interleavings enumerates all merges of call sequences of the given lengths.
func interleavings(lens []int, f func(order []int)) {
	cur := make([]int, 0, 16)
	rem := append([]int{}, lens...)
	var rec func()
	rec = func() {
		left := 0
		for _, n := range rem {
			left += n
		}
		if left == 0 {
			f(cur)
			return
		}
		for i := range rem {
			if rem[i] > 0 {
				rem[i]--
				cur = append(cur, i)
				rec()
				cur = cur[:len(cur)-1]
				rem[i]++
			}
		}
	}
	rec()
}

func pairPrograms(thorough bool) []Program {
	var ps []Program
	optset := []Options{DefaultOptions(), {Dict: "none", Reset: -1, Zstd: 0, Span: -1, Attrs16: -1, Attrs32: -1}, {Dict: "u8", Reset: 0.3, Zstd: -1, Span: 2, Attrs16: 1, Attrs32: 2}}
	if thorough {
		optset = append(optset, Options{Dict: "u8", Reset: 0, Zstd: 1, Span: 5, Attrs16: 0, Attrs32: 0}, Options{Dict: "", Reset: -1, Zstd: -1, Span: 0, Attrs16: 2, Attrs32: 4})
	}
	for _, sig := range sigs() {
		a := historyAlphabet(sig, false)
		g := groupLetters(sig)
		hs := [][]Letter{{a[2], g[0]}, {g[1], a[5]}, fixRamps([]Letter{a[len(a)-1], a[len(a)-1]})}
		if thorough {
			hs = append(hs, []Letter{a[1], a[10]}, []Letter{g[0], g[0]})
		}
		for oi, o := range optset {
			for hi, h := range hs {
				if !thorough && (oi+hi)%2 == 1 {
					continue
				}
				ps = append(ps, Program{Opts: o, History: h})
			}
		}
	}
	// error paths. Consumer: a damaged batch (the call fails after part of the batch was
	// loaded) between healthy batches.  Producer: a batch refused half-way at the id width.
	for _, sig := range sigs() {
		a := historyAlphabet(sig, false)
		foreign := map[string]colarspb.ArrowPayloadType{"traces": colarspb.ArrowPayloadType_LOGS, "logs": colarspb.ArrowPayloadType_SPANS, "metrics": colarspb.ArrowPayloadType_SPANS}[sig]
		for _, f := range []Fault{{Kind: "foreign", Type: int32(foreign)}, {Kind: "dupend", I: 0}, {Kind: "relabel", I: 1, Type: int32(colarspb.ArrowPayloadType_UNKNOWN)}} {
			f := f
			ps = append(ps, Program{Opts: DefaultOptions(), History: []Letter{a[10], a[2]}, Damage: &f, DamageAt: 0})
			if thorough {
				ps = append(ps, Program{Opts: DefaultOptions(), History: []Letter{a[2], a[10], a[1]}, Damage: &f, DamageAt: 1})
			}
		}
		ps = append(ps, Program{Opts: DefaultOptions(), History: []Letter{{Sig: sig, Big: &Big{Kind: "items", N: 65537}}, a[2]}, Heavy: true})
	}
	// programs whose consumer carries its own options come last: the solo runs
	// of the default consumers above are taken before any of these exists
	for _, sig := range sigs() {
		a := historyAlphabet(sig, false)
		ps = append(ps, Program{Opts: DefaultOptions(), History: []Letter{a[2], a[1]}, ConsLimit: 1024},
			Program{Opts: DefaultOptions(), History: []Letter{a[2], a[1]}, ConsLimit: 1 << 20})
	}
	return ps
}

type PairCase struct {
	Programs []Program `json:"programs"`
	Order    []int     `json:"order"`
}

func runPairCase(pc PairCase, solos [][]string) []string {
	runs := make([]*progRun, len(pc.Programs))
	for i, p := range pc.Programs {
		runs[i] = newProgRun(p)
	}
	for _, who := range pc.Order {
		runs[who].step()
	}
	var viol []string
	for i, r := range runs {
		r.close()
		for k := range r.obs {
			if k < len(solos[i]) && r.obs[k] != solos[i][k] {
				viol = append(viol, fmt.Sprintf("stream %d (%s), call %d: interleaved with another stream it observed %q, alone %q", i, r.p, k, r.obs[k], solos[i][k]))
				break
			}
		}
	}
	return viol
}

func pairWorker(tier string, shard, nshard int) *WorkerOut {
	thorough := tier == "thorough"
	out := &WorkerOut{WireStates: map[string]bool{}, Events: map[string]int{}, Layers: map[string]int{}, Counters: map[string]int{}}
	ps := pairPrograms(thorough)
	solos := make([][]string, len(ps))
	for i, p := range ps {
		solos[i] = solo(p)
		again := solo(p)
		if strings.Join(solos[i], "|") != strings.Join(again, "|") {
			out.Counters["solo_not_deterministic"]++
			// fall back to decode observations only
			for k := range solos[i] {
				if strings.HasPrefix(solos[i][k], "encode batch") {
					solos[i][k] = "encode ok"
				}
			}
		}
	}
	idx := 0
	var tuples [][]int
	for a := range ps {
		for b := a; b < len(ps); b++ {
			if (ps[a].Heavy || ps[b].Heavy) && a != 0 {
				continue
			}
			// error-path programs meet every signal and option set among the first programs of
			// each signal, and each other; not the whole (quadratic) thorough program list
			if thorough && (ps[a].Damage != nil) != (ps[b].Damage != nil) && a%5 != 0 {
				continue
			}
			tuples = append(tuples, []int{a, b})
			if ps[b].ConsLimit > 0 && ps[a].ConsLimit == 0 {
				tuples = append(tuples, []int{b, a}) // the consumer with options is constructed first
			}
		}
	}
	if thorough {
		// a dozen triples (34,650 interleavings each), spread over signals and options
		n := len(ps)
		for k := 0; k < 12; k++ {
			tuples = append(tuples, []int{k % n, (k*7 + n/3) % n, (k*11 + 2*n/3) % n})
		}
	}
	for _, tp := range tuples {
		idx++
		if nshard > 0 && idx%nshard != shard {
			continue
		}
		var progs []Program
		var lens []int
		var ss [][]string
		for _, i := range tp {
			progs = append(progs, ps[i])
			lens = append(lens, 2*len(ps[i].History))
			ss = append(ss, solos[i])
		}
		out.States++
		seen := map[string]bool{}
		interleavings(lens, func(order []int) {
			out.Units++
			out.Transitions += len(order)
			pc := PairCase{Programs: progs, Order: append([]int{}, order...)}
			wex, _ := json.Marshal(pc)
			wdBegin(Finding{Prop: "C16", Unit: Unit{Opts: progs[0].Opts, History: progs[0].History, Tag: "pair"}, Key: fmt.Sprintf("%v order=%v", tp, order), Extra: wex}, out)
			res := runPairCase(pc, ss)
			wdEnd()
			for _, m := range res {
				c := msgClass(m)
				if seen[c] {
					continue
				}
				seen[c] = true
				ex, _ := json.Marshal(pc)
				out.Findings = append(out.Findings, Finding{Prop: "C16", Msg: m, Unit: Unit{Opts: progs[0].Opts, History: progs[0].History, Tag: "pair"}, Key: fmt.Sprintf("%v order=%v", tp, order), Extra: ex})
			}
		})
		if len(out.Samples) < 2 {
			out.Samples = append(out.Samples, fmt.Sprintf("streams {%s} || {%s}: all interleavings of their encode/decode calls", progs[0], progs[1]))
		}
	}
	return out
}

// racePass runs the same programs free-running, one goroutine per stream.
// It is meaningful only in a binary built with -race.
func racePass(tier string) int {
	thorough := tier == "thorough"
	ps := pairPrograms(thorough)
	rounds := 3
	n := 0
	for round := 0; round < rounds; round++ {
		// all streams at once, then sliding groups of 3
		groups := [][]int{}
		all := []int{}
		for i := range ps {
			all = append(all, i)
		}
		groups = append(groups, all)
		for i := 0; i+2 < len(ps); i++ {
			groups = append(groups, []int{i, i + 1, i + 2}, []int{i, i, i})
		}
		for _, g := range groups {
			var wg sync.WaitGroup
			start := make(chan struct{})
			for _, i := range g {
				wg.Add(1)
				go func(p Program) {
					defer wg.Done()
					<-start
					solo(p)
				}(ps[i])
				n++
			}
			close(start)
			wg.Wait()
		}
	}
	fmt.Printf("racepass: %d concurrent stream runs completed\n", n)
	b, _ := json.Marshal(map[string]any{"concurrent_stream_runs": n, "programs": len(ps)})
	os.WriteFile(os.Getenv("RACEPASS_OUT"), b, 0o644)
	return 0
}

func init() {
	specialWorkers["C16"] = pairWorker
	specialReplays["C16"] = func(a Artefact, path string) int {
		var pc PairCase
		if err := json.Unmarshal(a.Extra, &pc); err != nil {
			fmt.Println("HARNESS-ERROR:", err)
			return 2
		}
		var ss [][]string
		for _, p := range pc.Programs {
			ss = append(ss, solo(p))
		}
		viol := runPairCase(pc, ss)
		for _, m := range viol {
			fmt.Println("C16:", m)
		}
		if len(viol) > 0 {
			fmt.Printf("VIOLATION property=C16 replay=%s\n", path)
			return 1
		}
		fmt.Println("replay: no violation of C16 on this tree")
		return 0
	}
	extraCoverage["C16"] = func(outs []*WorkerOut) map[string]any {
		c := map[string]int{}
		for _, o := range outs {
			for k, v := range o.Counters {
				c[k] += v
			}
		}
		m := map[string]any{"programs_whose_solo_run_is_not_byte_deterministic": c["solo_not_deterministic"]}
		if b, err := os.ReadFile(os.Getenv("RACEPASS_OUT")); err == nil {
			var rp map[string]any
			json.Unmarshal(b, &rp)
			m["race_pass"] = rp
			m["race_pass_note"] = "free-running -race build of the same programs, one goroutine per stream: a dynamic detector on sampled schedules; see DESIGN.md C16 for why a conflicting access between independent instances is schedule independent"
		}
		return m
	}
	_ = sort.Strings
}
