package main

import (
	"bytes"
	"crypto/sha256"
	"errors"
	"fmt"
	"math"
	"runtime/debug"
	"sort"
	"strings"

	"github.com/apache/arrow-go/v18/arrow"
	"github.com/apache/arrow-go/v18/arrow/array"
	"github.com/apache/arrow-go/v18/arrow/ipc"
	"github.com/apache/arrow-go/v18/arrow/memory"
	"go.opentelemetry.io/collector/pdata/plog"
	"go.opentelemetry.io/collector/pdata/pmetric"
	"go.opentelemetry.io/collector/pdata/ptrace"

	colarspb "github.com/open-telemetry/otel-arrow/api/experimental/arrow/v1"
	cfg "github.com/open-telemetry/otel-arrow/pkg/config"
	"github.com/open-telemetry/otel-arrow/pkg/otel/arrow_record"
	"github.com/open-telemetry/otel-arrow/pkg/record_message"
)

// Options is a serialisable description of the producer options.
type Options struct {
	Dict    string  `json:"dict"`   // "" (default) | none | u8 | u16 | u32 | u64
	Reset   float64 `json:"reset"`  // <0: default
	Zstd    int     `json:"zstd"`   // <0 default, 0 off, 1 on
	Span    int     `json:"span"`   // <0 default, else cfg.OrderSpanBy
	Attrs16 int     `json:"attrs16"`
	Attrs32 int     `json:"attrs32"`
	// Init: With{Uint8,16,32,64}InitDictIndex ("" = not given); InitAfter places
	// it after the limit option instead of before. The limit must not depend on it.
	Init      string `json:"init,omitempty"`
	InitAfter bool   `json:"init_after,omitempty"`
	// Stats: "ratio" = WithCompressionRatioStats (the statistics options that print on every
	// batch are left out: the workers talk to their parent over stdout)
	Stats string `json:"stats,omitempty"`
}

func DefaultOptions() Options { return Options{Reset: -1, Zstd: -1, Span: -1, Attrs16: -1, Attrs32: -1} }

func (o Options) String() string {
	var p []string
	if o.Dict != "" {
		p = append(p, "dict="+o.Dict)
	}
	if o.Reset >= 0 {
		p = append(p, fmt.Sprintf("reset=%g", o.Reset))
	}
	if o.Zstd >= 0 {
		p = append(p, fmt.Sprintf("zstd=%d", o.Zstd))
	}
	if o.Span >= 0 {
		p = append(p, fmt.Sprintf("span=%d", o.Span))
	}
	if o.Attrs16 >= 0 {
		p = append(p, fmt.Sprintf("attrs16=%d", o.Attrs16))
	}
	if o.Attrs32 >= 0 {
		p = append(p, fmt.Sprintf("attrs32=%d", o.Attrs32))
	}
	if o.Stats != "" {
		p = append(p, "stats="+o.Stats)
	}
	if o.Init != "" {
		if o.InitAfter {
			p = append(p, "then-init="+o.Init)
		} else {
			p = append(p, "init-first="+o.Init)
		}
	}
	if len(p) == 0 {
		return "default"
	}
	return strings.Join(p, ",")
}

// Limit returns the configured dictionary limit (entries).
func (o Options) Limit() uint64 {
	switch o.Dict {
	case "none":
		return 0
	case "u8":
		return math.MaxUint8
	case "", "u16":
		return math.MaxUint16
	case "u32":
		return math.MaxUint32
	case "u64":
		return math.MaxUint64
	}
	return math.MaxUint16
}

func (o Options) initOption() []cfg.Option {
	switch o.Init {
	case "u8":
		return []cfg.Option{cfg.WithUint8InitDictIndex()}
	case "u16":
		return []cfg.Option{cfg.WithUint16InitDictIndex()}
	case "u32":
		return []cfg.Option{cfg.WithUint32LinitDictIndex()}
	case "u64":
		return []cfg.Option{cfg.WithUint64InitDictIndex()}
	}
	return nil
}

func (o Options) build(extra ...cfg.Option) []cfg.Option {
	var out []cfg.Option
	if !o.InitAfter {
		out = append(out, o.initOption()...)
	}
	switch o.Dict {
	case "none":
		out = append(out, cfg.WithNoDictionary())
	case "u8":
		out = append(out, cfg.WithUint8LimitDictIndex())
	case "u16":
		out = append(out, cfg.WithUint16LimitDictIndex())
	case "u32":
		out = append(out, cfg.WithUint32LimitDictIndex())
	case "u64":
		out = append(out, cfg.WithUint64LimitDictIndex())
	}
	if o.InitAfter {
		out = append(out, o.initOption()...)
	}
	if o.Reset >= 0 {
		out = append(out, cfg.WithDictResetThreshold(o.Reset))
	}
	if o.Zstd == 0 {
		out = append(out, cfg.WithNoZstd())
	} else if o.Zstd == 1 {
		out = append(out, cfg.WithZstd())
	}
	if o.Span >= 0 {
		out = append(out, cfg.WithOrderSpanBy(cfg.OrderSpanBy(o.Span)))
	}
	if o.Stats == "ratio" {
		out = append(out, cfg.WithCompressionRatioStats())
	}
	if o.Attrs16 >= 0 {
		out = append(out, cfg.WithOrderAttrs16By(cfg.OrderAttrs16By(o.Attrs16)))
	}
	if o.Attrs32 >= 0 {
		out = append(out, cfg.WithOrderAttrs32By(cfg.OrderAttrs32By(o.Attrs32)))
	}
	return append(out, extra...)
}

// Monitors selects the oracles evaluated on every transition.
type Monitors struct {
	Roundtrip bool // C01-C04
	NoPanic   bool // C08
	Framing   bool // C12
	DictSize  bool // C13
	Alloc     bool // C15 (allocator balance at Close)
	Immutable bool // C15 (input bytes unchanged)
	OutOfDomain bool // letters may be outside the round-trip domain (C08): no content oracle
	Resend      bool // encode the very same pdata value twice in a row (C15)
	ReadOnly    bool   // the input is marked read-only before encoding (any write panics): C15
	RtProp      string // report round-trip failures under this property (C04) instead of C01..C03
}

type Violation struct {
	Prop string
	Msg  string
}

// covObserver counts schema-evolution events (vacuity guard).
type covObserver struct {
	n  map[string]int
	st *Stream
}

func (o *covObserver) OnNewField(r, f string)                   { o.n["newfield"]++ }
func (o *covObserver) OnDictionaryUpgrade(r, f string, p, n arrow.DataType, c, t uint64) { o.n["upgrade"]++ }
func (o *covObserver) OnDictionaryOverflow(r, f string, c, t uint64)                     { o.n["overflow"]++ }
func (o *covObserver) OnSchemaUpdate(r string, old, new *arrow.Schema)                   { o.n["schemaupdate"]++ }
func (o *covObserver) OnDictionaryReset(r, f string, i arrow.DataType, c, t uint64)      { o.n["reset"]++ }
func (o *covObserver) OnMetadataUpdate(r, k string)                                      { o.n["metadata"]++ }
func (o *covObserver) OnRecord(arrow.Record, record_message.PayloadType) {
	if st := o.st; st != nil && st.fault != nil && st.stepNo == st.fault.Step {
		if st.recNo == st.fault.Record {
			st.falloc.armed = true
		}
		st.recNo++
	}
}

type subStream struct {
	ptype   colarspb.ArrowPayloadType
	schema  string
	buf     *bytes.Reader
	reader  *ipc.Reader
	retired bool
	n       int
	maxDict int
}

// ProdFault is one environment fault: the allocator given to the producer
// refuses the first allocation made after the Record-th record of step Step has
// been handed to the IPC writer (the observer's OnRecord is the last call before
// ipc.Writer.Write). arrow-go turns that panic into an error returned by the
// encode call. After the fault only the batch-id clause of C12 is judged (the
// property does not promise anything else about a producer whose allocator failed).
type ProdFault struct {
	Step   int `json:"step"`
	Record int `json:"record"`
}

type faultAlloc struct {
	memory.Allocator
	armed bool
	fired int
}

func (a *faultAlloc) Allocate(size int) []byte {
	if a.armed {
		a.armed = false
		a.fired++
		panic(fmt.Errorf("injected allocation failure (%d bytes)", size))
	}
	return a.Allocator.Allocate(size)
}

func (a *faultAlloc) Reallocate(size int, b []byte) []byte {
	if a.armed {
		a.armed = false
		a.fired++
		panic(fmt.Errorf("injected allocation failure (%d bytes)", size))
	}
	return a.Allocator.Reallocate(size, b)
}

type Stream struct {
	fault    *ProdFault
	falloc   *faultAlloc
	stepNo   int
	recNo    int
	faulted  bool
	opts    Options
	mon     Monitors
	prod    *arrow_record.Producer
	cons    *arrow_record.Consumer
	alloc   *memory.CheckedAllocator
	obs     *covObserver
	okCalls int64
	subs    map[string]*subStream
	cur     map[colarspb.ArrowPayloadType]string
	MaxDict int
	closed  bool
	// pipelined mode: phase 0 encodes and stores, phase 1 decodes the stored batches
	pipelined bool
	phase     int
	stored    []*storedBatch
	cursor    int
}

type storedBatch struct {
	bar     *colarspb.BatchArrowRecords
	want    []string
	digests []string // of each payload at emission
}

func payloadDigests(bar *colarspb.BatchArrowRecords) []string {
	var out []string
	for _, p := range bar.ArrowPayloads {
		h := sha256.Sum256(p.Record)
		out = append(out, string(h[:8]))
	}
	return out
}

func NewStream(o Options, mon Monitors) *Stream { return NewStreamFault(o, mon, nil) }

func NewStreamFault(o Options, mon Monitors, f *ProdFault) *Stream {
	st := &Stream{opts: o, mon: mon, obs: &covObserver{n: map[string]int{}}, subs: map[string]*subStream{}, cur: map[colarspb.ArrowPayloadType]string{}}
	st.obs.st = st
	extra := []cfg.Option{cfg.WithObserver(st.obs)}
	if f != nil {
		st.fault = f
		st.falloc = &faultAlloc{Allocator: memory.NewGoAllocator()}
		extra = append(extra, cfg.WithAllocator(st.falloc))
	} else if mon.Alloc {
		st.alloc = memory.NewCheckedAllocator(memory.NewGoAllocator())
		extra = append(extra, cfg.WithAllocator(st.alloc))
	}
	st.prod = arrow_record.NewProducerWithOptions(o.build(extra...)...)
	st.cons = arrow_record.NewConsumer()
	return st
}

func mainType(sig string) colarspb.ArrowPayloadType {
	switch sig {
	case "traces":
		return colarspb.ArrowPayloadType_SPANS
	case "logs":
		return colarspb.ArrowPayloadType_LOGS
	}
	return colarspb.ArrowPayloadType_UNIVARIATE_METRICS
}

func rtProp(sig string) string {
	switch sig {
	case "traces":
		return "C01"
	case "logs":
		return "C02"
	}
	return "C03"
}

func protect(f func()) (pan string) {
	defer func() {
		if r := recover(); r != nil {
			pan = fmt.Sprintf("%v\n%s", r, shortStack())
		}
	}()
	f()
	return ""
}

func shortStack() string {
	lines := strings.Split(string(debug.Stack()), "\n")
	var keep []string
	for _, l := range lines {
		if strings.Contains(l, "otel-arrow/pkg") && !strings.Contains(l, "zzverif") {
			keep = append(keep, strings.TrimSpace(l))
		}
		if len(keep) >= 8 {
			break
		}
	}
	return strings.Join(keep, "\n")
}

// Step sends one batch through the stream and evaluates the monitors.
func (st *Stream) Step(l Letter) (viol []Violation) {
	add := func(prop, format string, a ...any) {
		if st.mon.RtProp != "" && (prop == "C01" || prop == "C02" || prop == "C03") {
			prop = st.mon.RtProp
		}
		viol = append(viol, Violation{prop, fmt.Sprintf(format, a...)})
	}
	if l.Op != "" {
		if st.pipelined && st.phase == 1 {
			st.cursor++
			return nil
		}
		if st.pipelined {
			st.stored = append(st.stored, nil)
		}
		pan := protect(func() {
			switch l.Op {
			case "resetstats":
				_ = st.prod.GetAndResetStats()
			case "sizestats":
				_ = st.prod.RecordSizeStats()
			}
		})
		if pan != "" {
			add("C08", "producer panicked in %s: %s", l.Op, pan)
		}
		return viol
	}
	if st.pipelined && st.phase == 1 {
		if st.cursor >= len(st.stored) {
			return nil
		}
		sb := st.stored[st.cursor]
		st.cursor++
		if sb == nil {
			return nil
		}
		if st.mon.Framing || st.mon.DictSize {
			for i, d := range payloadDigests(sb.bar) {
				if i < len(sb.digests) && d != sb.digests[i] {
					add("C12", "payload %d (%s) of batch %d: its bytes changed after the batch was emitted (a BatchArrowRecords must stay valid while later batches are produced)", i, sb.bar.ArrowPayloads[i].Type, sb.bar.BatchId)
				}
			}
			st.wire(l, sb.bar, add)
			st.okCalls++
			if !st.mon.Roundtrip {
				return viol
			}
		}
		st.decodeAndCompare(l, sb.bar, sb.want, add, " (decoded after all later batches had been produced)")
		return viol
	}
	if st.pipelined {
		// reserve the slot: a failed encode leaves it nil
		st.stored = append(st.stored, nil)
	}
	var want []string
	var before []byte
	var bar *colarspb.BatchArrowRecords
	var err error
	var in any
	switch l.Sig {
	case "traces":
		td := l.BuildTraces()
		in = td
		want = CanonTraces(td)
		if st.mon.Immutable {
			before, _ = (&ptrace.ProtoMarshaler{}).MarshalTraces(td)
		}
	case "logs":
		ld := l.BuildLogs()
		in = ld
		want = CanonLogs(ld)
		if st.mon.Immutable {
			before, _ = (&plog.ProtoMarshaler{}).MarshalLogs(ld)
		}
	case "metrics":
		md := l.BuildMetrics()
		in = md
		want = CanonMetrics(md)
		if st.mon.Immutable {
			before, _ = (&pmetric.ProtoMarshaler{}).MarshalMetrics(md)
		}
	}
	if st.mon.ReadOnly {
		switch x := in.(type) {
		case ptrace.Traces:
			x.MarkReadOnly()
		case plog.Logs:
			x.MarkReadOnly()
		case pmetric.Metrics:
			x.MarkReadOnly()
		}
	}
	st.recNo = 0
	pan := protect(func() {
		switch x := in.(type) {
		case ptrace.Traces:
			bar, err = st.prod.BatchArrowRecordsFromTraces(x)
		case plog.Logs:
			bar, err = st.prod.BatchArrowRecordsFromLogs(x)
		case pmetric.Metrics:
			bar, err = st.prod.BatchArrowRecordsFromMetrics(x)
		}
	})
	st.stepNo++
	if st.fault != nil {
		st.falloc.armed = false
		if st.falloc.fired > 0 && !st.faulted {
			st.faulted = true
			st.obs.n["injected_alloc_faults"]++
			if err != nil && pan == "" {
				st.obs.n["injected_alloc_faults_returned_as_error"]++
			}
		}
		if st.faulted {
			// after the injected fault: only "batch ids of emitted batches count up by one"
			if pan == "" && err == nil && bar != nil {
				if bar.BatchId != st.okCalls {
					add("C12", "batch_id=%d, expected %d: an encode call that failed (allocation refused while the IPC writer was writing a record) must not consume a batch id", bar.BatchId, st.okCalls)
				}
				st.okCalls++
			}
			return viol
		}
	}
	if st.mon.Immutable {
		var after []byte
		switch x := in.(type) {
		case ptrace.Traces:
			after, _ = (&ptrace.ProtoMarshaler{}).MarshalTraces(x)
		case plog.Logs:
			after, _ = (&plog.ProtoMarshaler{}).MarshalLogs(x)
		case pmetric.Metrics:
			after, _ = (&pmetric.ProtoMarshaler{}).MarshalMetrics(x)
		}
		if !bytes.Equal(before, after) {
			add("C15", "producer modified its input (OTLP bytes differ before/after encoding)")
		}
	}
	if st.mon.Resend && pan == "" {
		// re-send the same value: it must still be intact and encodable
		pan = protect(func() {
			var bar2 *colarspb.BatchArrowRecords
			var err2 error
			switch x := in.(type) {
			case ptrace.Traces:
				bar2, err2 = st.prod.BatchArrowRecordsFromTraces(x)
			case plog.Logs:
				bar2, err2 = st.prod.BatchArrowRecordsFromLogs(x)
			case pmetric.Metrics:
				bar2, err2 = st.prod.BatchArrowRecordsFromMetrics(x)
			}
			if (err == nil) != (err2 == nil) {
				add("C15", "re-sending the same value gave a different outcome: first err=%v, second err=%v", err, err2)
			}
			_ = bar2
		})
	}
	if l.Big != nil && pan == "" {
		sub := strings.HasPrefix(l.Big.Kind, "sub-") // 32-bit ids: in domain far beyond 65,536
		if sub && err != nil {
			add("C08", "a batch with %d %s (32-bit ids, within the id width) was refused: %v", l.Big.N, l.Big.Kind, err)
		}
		if l.Big.N >= 65537 && err == nil && !sub {
			add("C08", "a batch with %d %s (more than 16-bit ids allow) was accepted instead of refused with an error", l.Big.N, l.Big.Kind)
		}
		if l.Big.N <= 65535 && err != nil {
			add("C08", "a batch with %d %s (within the id width) was refused: %v", l.Big.N, l.Big.Kind, err)
		}
	}
	if pan != "" && st.mon.ReadOnly && strings.Contains(pan, "invalid access to shared data") {
		add("C15", "producer tried to modify its (read-only) input: %s", pan)
		return viol
	}
	if pan != "" {
		add("C08", "producer panicked: %s", pan)
		if st.mon.Roundtrip && !st.mon.OutOfDomain {
			add(rtProp(l.Sig), "producer panicked on an in-domain batch: %s", firstLine(pan))
		}
		return viol
	}
	if err != nil {
		if st.mon.Roundtrip && !st.mon.OutOfDomain && !(l.Big != nil && l.Big.N > 65535) {
			add(rtProp(l.Sig), "producer refused an in-domain batch: %v", err)
		}
		return viol
	}
	if st.pipelined {
		st.stored[len(st.stored)-1] = &storedBatch{bar: bar, want: want, digests: payloadDigests(bar)}
		return viol
	}
	if st.mon.Framing || st.mon.DictSize {
		st.wire(l, bar, add)
	}
	st.okCalls++
	if !st.mon.Roundtrip {
		return viol
	}
	st.decodeAndCompare(l, bar, want, add, "")
	return viol
}

// decodeAndCompare reports through add (which appends to the caller's list).
func (st *Stream) decodeAndCompare(l Letter, bar *colarspb.BatchArrowRecords, want []string, add func(prop, format string, a ...any), note string) {
	add0 := add
	add = func(prop, format string, a ...any) { add0(prop, format+note, a...) }
	var pan string
	var got []string
	var derr error
	pan = protect(func() {
		switch l.Sig {
		case "traces":
			var out []ptrace.Traces
			out, derr = st.cons.TracesFrom(bar)
			for _, t := range out {
				got = append(got, CanonTraces(t)...)
			}
		case "logs":
			var out []plog.Logs
			out, derr = st.cons.LogsFrom(bar)
			for _, t := range out {
				got = append(got, CanonLogs(t)...)
			}
		case "metrics":
			var out []pmetric.Metrics
			out, derr = st.cons.MetricsFrom(bar)
			for _, t := range out {
				got = append(got, CanonMetrics(t)...)
			}
		}
	})
	if st.mon.OutOfDomain {
		return
	}
	if pan != "" {
		add(rtProp(l.Sig), "consumer panicked on a well-formed batch: %s", firstLine(pan))
		add("C07", "consumer panicked on a well-formed batch: %s", pan)
		return
	}
	if derr != nil {
		add(rtProp(l.Sig), "consumer rejected a well-formed batch: %v", derr)
		return
	}
	sort.Strings(got)
	if d := diffCanon(want, got); d != "" {
		add(rtProp(l.Sig), "decoded telemetry differs from encoded: %s", d)
	}
}

func firstLine(s string) string {
	if i := strings.IndexByte(s, '\n'); i >= 0 {
		return s[:i]
	}
	return s
}

// Close closes producer and consumer and evaluates the allocator monitor.
func (st *Stream) Close() (viol []Violation) {
	if st.closed {
		return nil
	}
	st.closed = true
	pan := protect(func() { _ = st.prod.Close() })
	if pan != "" {
		viol = append(viol, Violation{"C15", "Producer.Close panicked: " + pan})
	}
	protect(func() { _ = st.cons.Close() })
	for _, s := range st.subs {
		if s.reader != nil {
			s.reader.Release()
		}
	}
	if st.mon.Alloc && st.alloc != nil {
		if n := st.alloc.CurrentAlloc(); n != 0 {
			viol = append(viol, Violation{"C15", fmt.Sprintf("after Producer.Close the configured allocator still holds %d bytes", n)})
		}
	}
	return viol
}

// wire is the reference model of the framing (C12) and the dictionary bound (C13).
func (st *Stream) wire(l Letter, bar *colarspb.BatchArrowRecords, add func(prop, format string, a ...any)) {
	fr := st.mon.Framing
	if fr && bar.BatchId != st.okCalls {
		add("C12", "batch_id=%d, expected %d (number of earlier successful calls)", bar.BatchId, st.okCalls)
	}
	if fr && len(bar.ArrowPayloads) == 0 {
		add("C12", "batch without payloads")
		return
	}
	seen := map[colarspb.ArrowPayloadType]bool{}
	for i, p := range bar.ArrowPayloads {
		if fr {
			if i == 0 && p.Type != mainType(l.Sig) {
				add("C12", "first payload has type %s, want the main record %s", p.Type, mainType(l.Sig))
			}
			if seen[p.Type] {
				add("C12", "payload type %s appears twice in one batch", p.Type)
			}
		}
		seen[p.Type] = true
		sub := st.subs[p.SchemaId]
		first := false
		if sub == nil {
			first = true
			if old, ok := st.cur[p.Type]; ok {
				st.subs[old].retired = true
				if st.subs[old].reader != nil {
					st.subs[old].reader.Release()
					st.subs[old].reader = nil
				}
			}
			sub = &subStream{ptype: p.Type, buf: bytes.NewReader(nil)}
			st.subs[p.SchemaId] = sub
			st.cur[p.Type] = p.SchemaId
		} else if fr {
			if sub.ptype != p.Type {
				add("C12", "schema id %s was used for %s and now for %s", p.SchemaId, sub.ptype, p.Type)
				continue
			}
			if sub.retired {
				add("C12", "schema id %s (%s) is used again after the producer moved that payload type to a newer schema id", p.SchemaId, p.Type)
				continue
			}
		}
		if sub.retired || sub.ptype != p.Type {
			continue
		}
		// message level scan of this payload
		if fr {
			if msg := scanMessages(p.Record, first); msg != "" {
				add("C12", "payload %d (%s, schema id %s): %s", i, p.Type, p.SchemaId, msg)
			}
		}
		// independent Arrow reader
		sub.buf.Reset(p.Record)
		if sub.reader == nil {
			r, err := ipc.NewReader(sub.buf, ipc.WithDictionaryDeltas(true), ipc.WithZstd())
			if err != nil {
				if fr {
					add("C12", "payload %d (%s): an independent Arrow reader cannot open the stream: %v", i, p.Type, err)
				}
				continue
			}
			sub.reader = r
			sub.schema = r.Schema().String()
		}
		var rec arrow.Record
		pan := protect(func() {
			if sub.reader.Next() {
				rec = sub.reader.Record()
			}
		})
		if pan != "" || rec == nil || sub.reader.Err() != nil {
			if fr {
				add("C12", "payload %d (%s, schema id %s, #%d on this id): an independent Arrow reader cannot decode it: err=%v %s", i, p.Type, p.SchemaId, sub.n, sub.reader.Err(), firstLine(pan))
			}
			continue
		}
		sub.n++
		if fr {
			if s := rec.Schema().String(); s != sub.schema {
				add("C12", "schema id %s (%s) denotes two Arrow schemas", p.SchemaId, p.Type)
			}
			if i > 0 && rec.NumRows() == 0 {
				add("C12", "related payload %s is empty", p.Type)
			}
		}
		if st.mon.DictSize {
			limit := st.opts.Limit()
			for c := 0; c < int(rec.NumCols()); c++ {
				walkDicts(rec.Column(c), rec.ColumnName(c), func(path string, d *array.Dictionary) {
					n := d.Dictionary().Len()
					if n > st.MaxDict {
						st.MaxDict = n
					}
					bits := d.DataType().(*arrow.DictionaryType).IndexType.(arrow.FixedWidthDataType).BitWidth()
					if limit == 0 {
						add("C13", "%s.%s is dictionary encoded although dictionaries are disabled", p.Type, path)
					} else if uint64(n) > limit {
						add("C13", "dictionary of %s.%s holds %d entries > configured limit %d", p.Type, path, n, limit)
					}
					if bits < 63 && uint64(n) > (uint64(1)<<uint(bits)) {
						add("C13", "dictionary of %s.%s holds %d entries, more than its %d-bit index can address", p.Type, path, n, bits)
					}
				})
			}
		}
	}
}

func walkDicts(a arrow.Array, path string, f func(path string, d *array.Dictionary)) {
	switch x := a.(type) {
	case *array.Dictionary:
		f(path, x)
	case *array.Struct:
		st := x.DataType().(*arrow.StructType)
		for i := 0; i < x.NumField(); i++ {
			walkDicts(x.Field(i), path+"."+st.Field(i).Name, f)
		}
	case *array.List:
		walkDicts(x.ListValues(), path+"[]", f)
	case *array.Map:
		walkDicts(x.Keys(), path+".key", f)
		walkDicts(x.Items(), path+".value", f)
	case *array.SparseUnion:
		for i := 0; i < x.NumFields(); i++ {
			walkDicts(x.Field(i), fmt.Sprintf("%s.u%d", path, i), f)
		}
	case *array.DenseUnion:
		for i := 0; i < x.NumFields(); i++ {
			walkDicts(x.Field(i), fmt.Sprintf("%s.u%d", path, i), f)
		}
	}
}

// scanMessages checks the IPC message sequence of one payload.
func scanMessages(b []byte, first bool) (verdict string) {
	defer func() {
		if r := recover(); r != nil {
			verdict = fmt.Sprintf("the payload bytes are not a sequence of Arrow IPC messages (message reader panicked: %v)", r)
		}
	}()
	mr := ipc.NewMessageReader(bytes.NewReader(b))
	defer mr.Release()
	var kinds []string
	for {
		m, err := mr.Message()
		if err != nil {
			break
		}
		kinds = append(kinds, m.Type().String())
	}
	if len(kinds) == 0 {
		return "no IPC message"
	}
	i := 0
	if first {
		if kinds[0] != "Schema" {
			return fmt.Sprintf("first payload of a stream must start with a Schema message, got %v", kinds)
		}
		i = 1
	}
	for ; i < len(kinds)-1; i++ {
		if kinds[i] != "DictionaryBatch" {
			return fmt.Sprintf("unexpected message sequence %v", kinds)
		}
	}
	if kinds[len(kinds)-1] != "RecordBatch" {
		return fmt.Sprintf("payload must end with exactly one RecordBatch, got %v", kinds)
	}
	return ""
}

var _ = errors.New

// uncheckedIndexing reports whether a recovered panic comes out of the record
// accessors of pkg/arrow indexing into an Arrow dictionary/array whose entries
// were never received (a sub-stream that lost payloads): the class the
// properties exclude ("reaches unchecked indexing inside the Arrow library").
func uncheckedIndexing(pan string) bool {
	lines := strings.Split(pan, "\n")
	if len(lines) < 2 || !strings.Contains(lines[0], "index out of range") {
		return false
	}
	return strings.Contains(lines[1], "otel-arrow/pkg/arrow.")
}
