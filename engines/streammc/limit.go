package main

// limitmc (C14): for every short history, the complete ladder of memory
// limits 64*k from 0 up to the first limit at which nothing is refused.

import (
	"os"
	"context"
	"encoding/binary"
	"encoding/json"
	"errors"
	"fmt"
	"sort"

	"go.opentelemetry.io/otel/metric"
	"go.opentelemetry.io/otel/metric/noop"
	"google.golang.org/protobuf/proto"

	colarspb "github.com/open-telemetry/otel-arrow/api/experimental/arrow/v1"
	"github.com/open-telemetry/otel-arrow/pkg/otel/arrow_record"
	carrow "github.com/open-telemetry/otel-arrow/pkg/otel/common/arrow"
)

type memRecorder struct {
	sum    int64
	max    int64
	values []int64
}

type recMP struct {
	noop.MeterProvider
	rec *memRecorder
}

func (p recMP) Meter(string, ...metric.MeterOption) metric.Meter { return recMeter{rec: p.rec} }

type recMeter struct {
	noop.Meter
	rec *memRecorder
}

func (m recMeter) Int64UpDownCounter(name string, _ ...metric.Int64UpDownCounterOption) (metric.Int64UpDownCounter, error) {
	if name == "arrow_memory_inuse" {
		return recUDC{rec: m.rec}, nil
	}
	return noop.Int64UpDownCounter{}, nil
}

type recUDC struct {
	noop.Int64UpDownCounter
	rec *memRecorder
}

func (c recUDC) Add(_ context.Context, incr int64, _ ...metric.AddOption) {
	c.rec.sum += incr
	if c.rec.sum > c.rec.max {
		c.rec.max = c.rec.sum
	}
	c.rec.values = append(c.rec.values, c.rec.sum)
}

type LimitCase struct {
	Zstd  int    `json:"zstd"`
	Limit uint64 `json:"limit"`
}

func encodeAllOpts(h []Letter, o Options) []*colarspb.BatchArrowRecords {
	prod := arrow_record.NewProducerWithOptions(o.build()...)
	defer prod.Close()
	var out []*colarspb.BatchArrowRecords
	for _, l := range h {
		var bar *colarspb.BatchArrowRecords
		var err error
		switch l.Sig {
		case "traces":
			bar, err = prod.BatchArrowRecordsFromTraces(l.BuildTraces())
		case "logs":
			bar, err = prod.BatchArrowRecordsFromLogs(l.BuildLogs())
		default:
			bar, err = prod.BatchArrowRecordsFromMetrics(l.BuildMetrics())
		}
		if err != nil {
			return nil
		}
		out = append(out, bar)
	}
	return out
}

func decodeCanon(c *arrow_record.Consumer, l Letter, bar *colarspb.BatchArrowRecords) (got []string, err error, pan string) {
	pan = protect(func() {
		switch l.Sig {
		case "traces":
			out, e := c.TracesFrom(bar)
			err = e
			for _, t := range out {
				got = append(got, CanonTraces(t)...)
			}
		case "logs":
			out, e := c.LogsFrom(bar)
			err = e
			for _, t := range out {
				got = append(got, CanonLogs(t)...)
			}
		default:
			out, e := c.MetricsFrom(bar)
			err = e
			for _, t := range out {
				got = append(got, CanonMetrics(t)...)
			}
		}
	})
	sort.Strings(got)
	return
}

type limitRun struct {
	ok     []bool
	canon  [][]string
	viol   []string
	anyErr bool
	pub    *memRecorder
	notJudged int
	unaligned int
}

// runLimited decodes the whole history under one limit (0 = the default limit).
// limitCaseHook describes the decode about to run, for the non-termination watchdog.
var limitCaseHook func(limit uint64) (Finding, *WorkerOut)

func runLimited(h []Letter, bars []*colarspb.BatchArrowRecords, limit uint64, useDefault bool) *limitRun {
	if limitCaseHook != nil {
		f, out := limitCaseHook(limit)
		wdBegin(f, out)
		defer wdEnd()
	}
	rec := &memRecorder{}
	opts := []arrow_record.Option{arrow_record.WithMeterProvider(recMP{rec: rec})}
	if !useDefault {
		opts = append(opts, arrow_record.WithMemoryLimit(limit))
	}
	c := arrow_record.NewConsumer(opts...)
	r := &limitRun{pub: rec}
	healthy := true
	for i, l := range h {
		got, err, pan := decodeCanon(c, l, bars[i])
		if pan != "" && !healthy && uncheckedIndexing(pan) && os.Getenv("STREAMMC_EXEMPT_FOLLOWER_PANICS") != "" {
			// Not judged: an earlier batch of this stream was refused, its unread
			// payloads left sub-streams without dictionary entries that this batch
			// indexes (same territory as spliced IPC streams, see DESIGN.md C14).
			r.notJudged++
			r.ok = append(r.ok, false)
			r.canon = append(r.canon, nil)
			r.anyErr = true
			continue
		}
		if pan != "" {
			r.viol = append(r.viol, fmt.Sprintf("batch %d: consumer panicked under limit %d: %s", i, limit, pan))
			r.ok = append(r.ok, false)
			r.canon = append(r.canon, nil)
			r.anyErr = true
			healthy = false
			continue
		}
		if err != nil {
			r.anyErr = true
			// Only a batch on a healthy stream (every earlier batch decoded) is
			// judged: a refused batch leaves the sub-streams of its unread
			// payloads out of sync, which is outside "a point of a stream".
			if healthy {
				if !errors.Is(err, arrow_record.ErrConsumerMemoryLimit) {
					r.viol = append(r.viol, fmt.Sprintf("batch %d: refused under limit %d with an error that is not recognisable as the memory-limit error: %v", i, limit, err))
				} else {
					var le carrow.LimitError
					if errors.As(err, &le) {
						if le.Inuse%64 != 0 || le.Request%64 != 0 {
							r.unaligned++ // an observation about the allocator's granularity, not a verdict
						}
						if le.Inuse > limit && !useDefault {
							r.viol = append(r.viol, fmt.Sprintf("batch %d: LimitError reports in-use %d > limit %d", i, le.Inuse, limit))
						}
					}
				}
			}
			healthy = false
			r.ok = append(r.ok, false)
			r.canon = append(r.canon, nil)
		} else {
			r.ok = append(r.ok, true)
			r.canon = append(r.canon, got)
		}
		if !useDefault && rec.sum > 0 && uint64(rec.sum) > limit {
			r.viol = append(r.viol, fmt.Sprintf("after batch %d the published arrow_memory_inuse is %d > limit %d", i, rec.sum, limit))
		}
		if rec.sum < 0 {
			r.viol = append(r.viol, fmt.Sprintf("after batch %d the published arrow_memory_inuse is negative (%d)", i, rec.sum))
		}
	}
	if pan := protect(func() { c.Close() }); pan != "" {
		r.viol = append(r.viol, "Close panicked: "+pan)
	}
	if !useDefault && rec.sum > 0 && uint64(rec.sum) > limit {
		r.viol = append(r.viol, fmt.Sprintf("after Close the published arrow_memory_inuse is %d > limit %d", rec.sum, limit))
	}
	if rec.sum != 0 {
		r.viol = append(r.viol, fmt.Sprintf("after Close the published arrow_memory_inuse is %d, not 0", rec.sum))
	}
	return r
}

func sameCanon(a, b []string) bool {
	if len(a) != len(b) {
		return false
	}
	for i := range a {
		if a[i] != b[i] {
			return false
		}
	}
	return true
}

// limitLadder runs the complete ladder for one history; returns violations keyed by limit.
func limitLadder(h []Letter, zstd int, counters map[string]int, maxLimit uint64) (viol map[uint64][]string, lstar uint64, exhaustive bool) {
	o := DefaultOptions()
	o.Zstd = zstd
	bars := encodeAllOpts(h, o)
	viol = map[uint64][]string{}
	if bars == nil {
		return viol, 0, true
	}
	base := runLimited(h, bars, 0, true) // default 70 MiB limit
	base2 := runLimited(h, bars, 0, true)
	for i := range h {
		if !base.ok[i] || !sameCanon(base.canon[i], base2.canon[i]) {
			viol[70<<20] = append(viol[70<<20], fmt.Sprintf("batch %d: not decodable or not deterministic under the default limit", i))
			return viol, 0, false
		}
	}
	viol[70<<20] = append(viol[70<<20], base.viol...)
	for _, v := range base.pub.values {
		if v%64 != 0 {
			counters["published_values_not_multiple_of_64"]++
		}
	}
	everOK := make([]bool, len(h))
	okWith := map[string]bool{}
	exhaustive = true
	for L := uint64(0); ; L += 64 {
		if L > maxLimit {
			exhaustive = false
			break
		}
		r := runLimited(h, bars, L, false)
		counters["limit_runs"]++
		counters["panics_on_unhealthy_stream_not_judged"] += r.notJudged
		counters["limit_errors_not_multiple_of_64"] += r.unaligned
		viol[L] = append(viol[L], r.viol...)
		for i := range h {
			if r.ok[i] {
				if !sameCanon(r.canon[i], base.canon[i]) {
					viol[L] = append(viol[L], fmt.Sprintf("batch %d decodes to different telemetry under limit %d than under the default limit", i, L))
				}
				everOK[i] = true
				okWith[fmt.Sprint(i, r.ok[:i])] = true
			} else if okWith[fmt.Sprint(i, r.ok[:i])] && allTrue(r.ok[:i]) {
				viol[L] = append(viol[L], fmt.Sprintf("batch %d was decodable under a smaller limit but is refused under limit %d although every earlier batch was decoded under both", i, L))
			}
		}
		if r.anyErr {
			counters["limit_runs_with_refusal"]++
		}
		// cross-check: L+1 and L+63 behave as L (every quantity is a multiple of 64)
		{
			for _, d := range []uint64{1, 63} {
				r2 := runLimited(h, bars, L+d, false)
				counters["limit_runs"]++
				viol[L+d] = append(viol[L+d], r2.viol...)
				for i := range h {
					if r.ok[i] && !r2.ok[i] && allTrue(r.ok[:i]) && allTrue(r2.ok[:i]) {
						viol[L+d] = append(viol[L+d], fmt.Sprintf("batch %d is decodable under limit %d but refused under the larger limit %d although every earlier batch was decoded under both", i, L, L+d))
					} else if r2.ok[i] != r.ok[i] {
						counters["unaligned_limit_decides_differently"]++
					}
				}
			}
		}
		if !r.anyErr {
			lstar = L
			break
		}
	}
	// the top of the ladder: limits at and around the width of the limit's type; a batch
	// that is decodable under the default limit is decodable under every larger one
	for _, L := range []uint64{1 << 31, 1<<32 - 1, 1 << 32, 1<<62 + 1, 1<<63 - 1, 1 << 63, 1<<63 + 64, 1<<64 - 64, 1<<64 - 1} {
		r := runLimited(h, bars, L, false)
		counters["limit_runs"]++
		counters["huge_limit_runs"]++
		viol[L] = append(viol[L], r.viol...)
		for i := range h {
			if !r.ok[i] {
				viol[L] = append(viol[L], fmt.Sprintf("batch %d is decodable under the default limit but refused under the larger limit %d", i, L))
			} else if !sameCanon(r.canon[i], base.canon[i]) {
				viol[L] = append(viol[L], fmt.Sprintf("batch %d decodes to different telemetry under limit %d than under the default limit", i, L))
			}
		}
	}
	return viol, lstar, exhaustive
}

// patchFirstBodyLength overwrites the bodyLength field (flatbuffer Message
// table, field #3) of the first encapsulated IPC message that carries a body.
func patchFirstBodyLength(stream []byte, newLen int64) bool {
	pos := 0
	for pos+8 <= len(stream) {
		if binary.LittleEndian.Uint32(stream[pos:]) != 0xFFFFFFFF {
			return false
		}
		metaLen := int(int32(binary.LittleEndian.Uint32(stream[pos+4:])))
		if metaLen <= 0 || pos+8+metaLen > len(stream) {
			return false
		}
		meta := stream[pos+8 : pos+8+metaLen]
		tab := int(binary.LittleEndian.Uint32(meta))
		if tab+4 > len(meta) {
			return false
		}
		vt := tab - int(int32(binary.LittleEndian.Uint32(meta[tab:])))
		if vt < 0 || vt+12 > len(meta) {
			return false
		}
		vtSize := int(binary.LittleEndian.Uint16(meta[vt:]))
		fieldOff := 0
		if vtSize >= 12 {
			fieldOff = int(binary.LittleEndian.Uint16(meta[vt+10:]))
		}
		var bodyLen int64
		if fieldOff != 0 && tab+fieldOff+8 <= len(meta) {
			bodyLen = int64(binary.LittleEndian.Uint64(meta[tab+fieldOff:]))
		}
		if bodyLen > 0 {
			binary.LittleEndian.PutUint64(meta[tab+fieldOff:], uint64(newLen))
			return true
		}
		pos += 8 + metaLen + int(bodyLen)
	}
	return false
}

// declaredSize: the last batch of the history declares a body far larger than
// the limit (what a memory limit is for): it must be refused with the
// memory-limit error before anything of that size is allocated.
func declaredSize(h []Letter, zstd int) []string {
	o := DefaultOptions()
	o.Zstd = zstd
	bars := encodeAllOpts(h, o)
	if bars == nil {
		return nil
	}
	var viol []string
	// a huge declared body, and negative ones (a length <= -64 reaches Reallocate with a negative size)
	for _, declared := range []int64{1 << 50, -64, -1024, -4096, -65536} {
		last := proto.Clone(bars[len(bars)-1]).(*colarspb.BatchArrowRecords)
		patched := false
		for i := len(last.ArrowPayloads) - 1; i >= 0 && !patched; i-- {
			patched = patchFirstBodyLength(last.ArrowPayloads[i].Record, declared)
		}
		if !patched {
			return viol
		}
		const limit = 1 << 20
		if limitCaseHook != nil {
			f, out := limitCaseHook(limit)
			wdBegin(f, out)
		}
		rec := &memRecorder{}
		c := arrow_record.NewConsumer(arrow_record.WithMemoryLimit(limit), arrow_record.WithMeterProvider(recMP{rec: rec}))
		healthy := true
		for i := 0; i+1 < len(h); i++ {
			if _, err, pan := decodeCanon(c, h[i], bars[i]); err != nil || pan != "" {
				healthy = false
			}
		}
		if healthy {
			_, err, pan := decodeCanon(c, h[len(h)-1], last)
			what := fmt.Sprintf("a batch declaring a %d byte body", declared)
			if declared == 1<<50 {
				what = "a batch declaring a 2^50 byte buffer"
			}
			switch {
			case pan != "":
				viol = append(viol, what+" made the consumer panic under a 1 MiB limit: "+pan)
			case declared > 0 && err == nil:
				viol = append(viol, what+" was accepted under a 1 MiB limit")
			case declared > 0 && !errors.Is(err, arrow_record.ErrConsumerMemoryLimit):
				viol = append(viol, fmt.Sprintf("%s was refused under a 1 MiB limit with an error that is not recognisable as the memory-limit error: %v", what, err))
			}
		}
		protect(func() { c.Close() })
		if limitCaseHook != nil {
			wdEnd()
		}
		if healthy {
			for _, v := range rec.values {
				if v < 0 || v > limit {
					viol = append(viol, fmt.Sprintf("after a batch declaring a %d byte body the consumer reported %d bytes of Arrow memory in use (limit %d)", declared, v, limit))
					break
				}
			}
		}
	}
	return viol
}

func limitAlphabet(sig string) []Letter {
	a := historyAlphabet(sig, false)
	big := Letter{Sig: sig, Name: sig + ":bigbody"}
	_ = big
	return []Letter{a[0], a[1], a[2], a[5], a[7], a[10], {Sig: sig, Ramp: &Ramp{Kind: rampKind(sig), N: 40, Uses: 2}}, {Sig: sig, Ramp: &Ramp{Kind: "attrs", N: 30, Uses: 1}}}
}

func rampKind(sig string) string {
	if sig == "logs" {
		return "bodies"
	}
	return "names"
}

func limitWorker(tier string, shard, nshard int) *WorkerOut {
	thorough := tier == "thorough"
	out := &WorkerOut{WireStates: map[string]bool{}, Events: map[string]int{}, Layers: map[string]int{}, Counters: map[string]int{}}
	idx := 0
	for _, sig := range sigs() {
		alpha := limitAlphabet(sig)
		var hs [][]Letter
		for _, a := range alpha {
			hs = append(hs, fixRamps([]Letter{a}))
		}
		hs = append(hs, histories(alpha, 2)...)
		// a payload type used, left out of the next batch(es), then used again, on a consumer whose
		// retained memory is dominated by dictionaries (what the limit is for): the readers of idle
		// sub-streams are part of the stream's state whatever the memory pressure
		for _, rich := range []Letter{alpha[7], alpha[6], alpha[2]} {
			for _, plain := range []Letter{alpha[0], alpha[1]} {
				hs = append(hs, fixRamps([]Letter{rich, plain, rich}), fixRamps([]Letter{rich, plain, plain, alpha[2]}))
			}
		}
		if thorough {
			hs = append(hs, histories(alpha[:6], 3)...)
			big := []Letter{{Sig: sig, Ramp: &Ramp{Kind: rampKind(sig), N: 2000, Uses: 1}}, {Sig: sig, Ramp: &Ramp{Kind: "attrs", N: 1500, Uses: 2}}}
			for _, b := range big {
				hs = append(hs, fixRamps([]Letter{b}), fixRamps([]Letter{alpha[2], b, alpha[0]}))
			}
		}
		for _, h := range hs {
			for _, z := range []int{1, 0} {
				idx++
				if nshard > 0 && idx%nshard != shard {
					continue
				}
				out.Units++
				out.States++
				hh, zz := h, z
				limitCaseHook = func(limit uint64) (Finding, *WorkerOut) {
					ex, _ := json.Marshal(LimitCase{Zstd: zz, Limit: limit})
					return Finding{Prop: "C14", Unit: Unit{Opts: DefaultOptions(), History: hh, Tag: "limit"}, Extra: ex,
						Key: fmt.Sprintf("zstd=%d limit=%d :: %s", zz, limit, unitKey(Unit{Opts: DefaultOptions(), History: hh}, len(hh)-1))}, out
				}
				viol, lstar, exh := limitLadder(h, z, out.Counters, 4<<20)
				if len(h) <= 2 {
					out.Counters["declared_size_cases"]++
					if dv := declaredSize(h, z); len(dv) > 0 {
						viol[1<<20] = append(viol[1<<20], dv...)
					}
				}
				if !exh {
					out.Counters["ladder_capped"]++
				}
				if int(lstar) > out.MaxDict {
					out.MaxDict = int(lstar)
				}
				out.Transitions += int(lstar/64) + 1
				var limits []uint64
				for L := range viol {
					limits = append(limits, L)
				}
				sort.Slice(limits, func(i, j int) bool { return limits[i] < limits[j] })
				seen := map[string]bool{}
				for _, L := range limits {
					for _, m := range viol[L] {
						c := msgClass(m)
						if seen[c] {
							continue
						}
						seen[c] = true
						key := fmt.Sprintf("zstd=%d limit=%d :: %s", z, L, unitKey(Unit{Opts: DefaultOptions(), History: h}, len(h)-1))
						ex, _ := json.Marshal(LimitCase{Zstd: z, Limit: L})
						out.Findings = append(out.Findings, Finding{Prop: "C14", Msg: m, Unit: Unit{Opts: DefaultOptions(), History: h, Tag: "limit"}, Key: key, Extra: ex})
					}
				}
				if len(out.Samples) < 2 {
					out.Samples = append(out.Samples, fmt.Sprintf("zstd=%d %s: limits 0,64,..,%d (first limit without refusal)", z, unitKey(Unit{Opts: DefaultOptions(), History: h}, len(h)-1), lstar))
				}
			}
		}
	}
	return out
}

func init() {
	specialWorkers["C14"] = limitWorker
	specialReplays["C14"] = func(a Artefact, path string) int {
		var lc LimitCase
		if err := json.Unmarshal(a.Extra, &lc); err != nil {
			fmt.Println("HARNESS-ERROR:", err)
			return 2
		}
		o := DefaultOptions()
		o.Zstd = lc.Zstd
		bars := encodeAllOpts(a.Unit.History, o)
		if bars == nil {
			fmt.Println("replay: history not encodable")
			return 0
		}
		counters := map[string]int{}
		limitCaseHook = func(limit uint64) (Finding, *WorkerOut) { return Finding{Prop: "C14", Unit: a.Unit, Extra: a.Extra}, nil }
		viol, _, _ := limitLadder(a.Unit.History, lc.Zstd, counters, lc.Limit+64)
		if len(a.Unit.History) <= 2 {
			if dv := declaredSize(a.Unit.History, lc.Zstd); len(dv) > 0 {
				viol[1<<20] = append(viol[1<<20], dv...)
			}
		}
		bad := false
		for L, ms := range viol {
			for _, m := range ms {
				fmt.Printf("limit %d: %s\n", L, m)
				bad = true
			}
		}
		if bad {
			fmt.Printf("VIOLATION property=C14 replay=%s\n", path)
			return 1
		}
		fmt.Println("replay: no violation of C14 on this tree")
		return 0
	}
	extraCoverage["C14"] = func(outs []*WorkerOut) map[string]any {
		c := map[string]int{}
		maxL := 0
		for _, o := range outs {
			for k, v := range o.Counters {
				c[k] += v
			}
			if o.MaxDict > maxL {
				maxL = o.MaxDict
			}
		}
		return map[string]any{"limit_runs": c["limit_runs"], "limit_runs_with_refusal": c["limit_runs_with_refusal"], "ladders_capped": c["ladder_capped"], "declared_size_cases": c["declared_size_cases"], "panics_on_unhealthy_stream_not_judged": c["panics_on_unhealthy_stream_not_judged"],
			"largest_first_limit_without_refusal": maxL, "exhaustive": c["ladder_capped"] == 0, "max_dictionary_entries_seen": 0,
			"ladder": "limits 64*k for k = 0.. up to the first limit with no refusal in the whole history, each with the unaligned limits L+1 and L+63, plus the default 70 MiB and nine limits between 2^31 and 2^64-1"}
	}
}

func allTrue(b []bool) bool {
	for _, x := range b {
		if !x {
			return false
		}
	}
	return true
}
