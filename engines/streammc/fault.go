package main

// faultmc (C07): every payload-level fault of a finite menu, at every stream
// state reachable by a short well-formed prefix, fed to each of the three
// decoders of a consumer replayed to that prefix, followed by the next
// well-formed batch.

import (
	"sort"
	"os"
	"bytes"
	"encoding/json"
	"fmt"
	"strings"

	"github.com/apache/arrow-go/v18/arrow/ipc"
	"google.golang.org/protobuf/proto"

	colarspb "github.com/open-telemetry/otel-arrow/api/experimental/arrow/v1"
	"github.com/open-telemetry/otel-arrow/pkg/otel/arrow_record"
)

type Fault struct {
	Kind string `json:"kind"` // relabel | drop | dup | dupend | swap | reverse | nilrec | emptyrec | freshid | staleid | nopayloads
	I    int    `json:"i"`
	J    int    `json:"j,omitempty"`
	Type int32  `json:"type,omitempty"`
}

func (f Fault) String() string {
	switch f.Kind {
	case "relabel":
		return fmt.Sprintf("relabel(%d->%s)", f.I, colarspb.ArrowPayloadType(f.Type))
	case "swap":
		return fmt.Sprintf("swap(%d,%d)", f.I, f.J)
	case "reverse", "nopayloads":
		return f.Kind
	case "foreign":
		return fmt.Sprintf("foreign(%s)", colarspb.ArrowPayloadType(f.Type))
	}
	return fmt.Sprintf("%s(%d)", f.Kind, f.I)
}

type FaultCase struct {
	Decoder string  `json:"decoder"`
	Faults  []Fault `json:"faults"`
	// Healthy: no fault at all - the first clause of C07 on a long stream (every batch must be returned)
	Healthy bool `json:"healthy,omitempty"`
}

// runHealthy sends a whole well-formed history through one default consumer.
func runHealthy(h []Letter) []string {
	prod := arrow_record.NewProducer()
	defer func() { protect(func() { prod.Close() }) }()
	c := arrow_record.NewConsumer()
	defer func() { protect(func() { c.Close() }) }()
	for i, l := range h {
		var bar *colarspb.BatchArrowRecords
		var err error
		want := 0
		switch l.Sig {
		case "traces":
			td := l.BuildTraces()
			want = td.SpanCount()
			bar, err = prod.BatchArrowRecordsFromTraces(td)
		case "logs":
			ld := l.BuildLogs()
			want = ld.LogRecordCount()
			bar, err = prod.BatchArrowRecordsFromLogs(ld)
		default:
			md := l.BuildMetrics()
			want = md.MetricCount()
			bar, err = prod.BatchArrowRecordsFromMetrics(md)
		}
		if err != nil {
			return nil // producer side: judged by C01-C03/C08
		}
		n, derr, pan := decodeWith(c, l.Sig, bar)
		if pan != "" {
			return []string{fmt.Sprintf("healthy stream, batch %d of %d: the consumer panicked on a well-formed batch: %s", i, len(h), firstLine(pan))}
		}
		if derr != nil {
			return []string{fmt.Sprintf("healthy stream, batch %d of %d: a well-formed batch was not returned: %v", i, len(h), derr)}
		}
		if n != want {
			return []string{fmt.Sprintf("healthy stream, batch %d of %d: %d items returned, %d sent", i, len(h), n, want)}
		}
	}
	return nil
}

var mainTypes = map[colarspb.ArrowPayloadType]string{
	colarspb.ArrowPayloadType_SPANS: "traces", colarspb.ArrowPayloadType_LOGS: "logs", colarspb.ArrowPayloadType_UNIVARIATE_METRICS: "metrics",
}

func relabelTargets(sig string) []colarspb.ArrowPayloadType {
	t := []colarspb.ArrowPayloadType{colarspb.ArrowPayloadType_SPANS, colarspb.ArrowPayloadType_LOGS, colarspb.ArrowPayloadType_UNIVARIATE_METRICS, colarspb.ArrowPayloadType_UNKNOWN,
		colarspb.ArrowPayloadType_RESOURCE_ATTRS}
	switch sig {
	case "traces":
		t = append(t, colarspb.ArrowPayloadType_SPAN_EVENTS, colarspb.ArrowPayloadType_LOG_ATTRS, colarspb.ArrowPayloadType_SPAN_ATTRS)
	case "logs":
		t = append(t, colarspb.ArrowPayloadType_LOG_ATTRS, colarspb.ArrowPayloadType_SPAN_ATTRS)
	default:
		t = append(t, colarspb.ArrowPayloadType_NUMBER_DATA_POINTS, colarspb.ArrowPayloadType_HISTOGRAM_DATA_POINTS, colarspb.ArrowPayloadType_NUMBER_DP_ATTRS, colarspb.ArrowPayloadType_SPAN_ATTRS,
			colarspb.ArrowPayloadType_EXP_HISTOGRAM_DATA_POINTS, colarspb.ArrowPayloadType_MULTIVARIATE_METRICS)
	}
	return t
}

func faultMenu(sig string, n int, thorough bool) []Fault {
	var m []Fault
	m = append(m, Fault{Kind: "nopayloads"}, Fault{Kind: "reverse"})
	for _, t := range []colarspb.ArrowPayloadType{colarspb.ArrowPayloadType_SPANS, colarspb.ArrowPayloadType_LOGS, colarspb.ArrowPayloadType_UNIVARIATE_METRICS} {
		m = append(m, Fault{Kind: "foreign", Type: int32(t)})
	}
	for i := 0; i < n; i++ {
		for _, t := range relabelTargets(sig) {
			m = append(m, Fault{Kind: "relabel", I: i, Type: int32(t)})
		}
		m = append(m, Fault{Kind: "drop", I: i}, Fault{Kind: "dup", I: i}, Fault{Kind: "dupend", I: i}, Fault{Kind: "nilrec", I: i}, Fault{Kind: "emptyrec", I: i},
			Fault{Kind: "freshid", I: i}, Fault{Kind: "staleid", I: i})
		for j := i + 1; j < n; j++ {
			m = append(m, Fault{Kind: "swap", I: i, J: j})
		}
	}
	return m
}

// applyFault edits a deep copy of bar; stale maps a payload type to a retired schema id.
func applyFault(bar *colarspb.BatchArrowRecords, f Fault, stale map[colarspb.ArrowPayloadType]string) bool {
	ps := bar.ArrowPayloads
	if f.I >= len(ps) || f.J >= len(ps) {
		return f.Kind == "nopayloads" || f.Kind == "reverse"
	}
	switch f.Kind {
	case "nopayloads":
		bar.ArrowPayloads = nil
	case "reverse":
		for i, j := 0, len(ps)-1; i < j; i, j = i+1, j-1 {
			ps[i], ps[j] = ps[j], ps[i]
		}
	case "relabel":
		if ps[f.I].Type == colarspb.ArrowPayloadType(f.Type) {
			return false
		}
		ps[f.I].Type = colarspb.ArrowPayloadType(f.Type)
	case "drop":
		bar.ArrowPayloads = append(append([]*colarspb.ArrowPayload{}, ps[:f.I]...), ps[f.I+1:]...)
	case "dup":
		c := proto.Clone(ps[f.I]).(*colarspb.ArrowPayload)
		out := append([]*colarspb.ArrowPayload{}, ps[:f.I+1]...)
		out = append(out, c)
		bar.ArrowPayloads = append(out, ps[f.I+1:]...)
	case "dupend":
		bar.ArrowPayloads = append(ps, proto.Clone(ps[f.I]).(*colarspb.ArrowPayload))
	case "swap":
		ps[f.I], ps[f.J] = ps[f.J], ps[f.I]
	case "nilrec":
		ps[f.I].Record = nil
	case "emptyrec":
		ps[f.I].Record = []byte{}
	case "foreign":
		// a main record of another signal (a copy of this batch's own main payload under a
		// foreign label and a fresh schema id) appended behind everything else
		c := proto.Clone(ps[0]).(*colarspb.ArrowPayload)
		if c.Type == colarspb.ArrowPayloadType(f.Type) {
			return false
		}
		c.Type = colarspb.ArrowPayloadType(f.Type)
		c.SchemaId = "foreign-" + c.SchemaId
		bar.ArrowPayloads = append(ps, c)
	case "freshid":
		ps[f.I].SchemaId = "never-seen-" + ps[f.I].SchemaId
	case "staleid":
		id, ok := stale[ps[f.I].Type]
		if !ok || id == ps[f.I].SchemaId {
			return false
		}
		ps[f.I].SchemaId = id
	}
	return true
}

// rowsOf reads the number of rows of every payload of the well-formed stream.
type rowCounter struct {
	readers map[string]*ipc.Reader
	bufs    map[string]*bytes.Reader
}

func (rc *rowCounter) rows(p *colarspb.ArrowPayload) int {
	r := rc.readers[p.SchemaId]
	if r == nil {
		buf := bytes.NewReader(p.Record)
		nr, err := ipc.NewReader(buf, ipc.WithDictionaryDeltas(true), ipc.WithZstd())
		if err != nil {
			return -1
		}
		rc.readers[p.SchemaId], rc.bufs[p.SchemaId] = nr, buf
		r = nr
	} else {
		rc.bufs[p.SchemaId].Reset(p.Record)
	}
	if r.Next() {
		return int(r.Record().NumRows())
	}
	return -1
}

func faultAlphabet(sig string) []Letter {
	a := historyAlphabet(sig, false)
	switch sig {
	case "traces":
		return []Letter{a[0], a[2], a[5], a[6], a[10], a[1]}
	case "logs":
		return []Letter{a[0], a[2], a[4], a[6], a[10], a[1]}
	}
	return []Letter{a[0], a[1], a[4], a[6], a[8], a[10]}
}

func encodeAll(h []Letter) []*colarspb.BatchArrowRecords {
	prod := arrow_record.NewProducer()
	defer prod.Close()
	var out []*colarspb.BatchArrowRecords
	for _, l := range h {
		var bar *colarspb.BatchArrowRecords
		var err error
		switch l.Sig {
		case "traces":
			bar, err = prod.BatchArrowRecordsFromTraces(l.BuildTraces())
		case "logs":
			bar, err = prod.BatchArrowRecordsFromLogs(l.BuildLogs())
		default:
			bar, err = prod.BatchArrowRecordsFromMetrics(l.BuildMetrics())
		}
		if err != nil {
			return nil
		}
		out = append(out, bar)
	}
	return out
}

func decodeWith(c *arrow_record.Consumer, dec string, bar *colarspb.BatchArrowRecords) (items int, err error, pan string) {
	pan = protect(func() {
		switch dec {
		case "traces":
			out, e := c.TracesFrom(bar)
			err = e
			for _, t := range out {
				items += t.SpanCount()
			}
		case "logs":
			out, e := c.LogsFrom(bar)
			err = e
			for _, t := range out {
				items += t.LogRecordCount()
			}
		default:
			out, e := c.MetricsFrom(bar)
			err = e
			for _, t := range out {
				items += t.MetricCount()
			}
		}
	})
	return
}

// runFaultCase returns violation messages for one (history, fault set, decoder).
// history = prefix + victim + follower.
func runFaultCase(h []Letter, fc FaultCase) []string {
	bars := encodeAll(h)
	if bars == nil {
		return nil
	}
	return runFaultCaseBars(h, bars, fc, nil)
}

func runFaultCaseBars(h []Letter, bars []*colarspb.BatchArrowRecords, fc FaultCase, counters map[string]int) (viol []string) {
	npre := len(h) - 2
	victim := proto.Clone(bars[npre]).(*colarspb.BatchArrowRecords)
	// schema ids retired during the prefix, and row counts of the victim's payloads
	rc := &rowCounter{readers: map[string]*ipc.Reader{}, bufs: map[string]*bytes.Reader{}}
	stale := map[colarspb.ArrowPayloadType]string{}
	cur := map[colarspb.ArrowPayloadType]string{}
	rows := map[*colarspb.ArrowPayload]int{}
	for i := 0; i <= npre; i++ {
		src := bars[i]
		if i == npre {
			src = victim
		}
		for _, p := range src.ArrowPayloads {
			if old, ok := cur[p.Type]; ok && old != p.SchemaId {
				stale[p.Type] = old
			}
			cur[p.Type] = p.SchemaId
			n := rc.rows(p)
			if i == npre {
				rows[p] = n
			}
		}
	}
	for _, r := range rc.readers {
		r.Release()
	}
	orig := map[*colarspb.ArrowPayload]colarspb.ArrowPayloadType{}
	for _, p := range victim.ArrowPayloads {
		orig[p] = p.Type
	}
	for _, f := range fc.Faults {
		if !applyFault(victim, f, stale) {
			return nil // not applicable
		}
	}
	cons := arrow_record.NewConsumer()
	defer func() { protect(func() { cons.Close() }) }()
	for i := 0; i < npre; i++ {
		_, err, pan := decodeWith(cons, h[i].Sig, bars[i])
		if err != nil || pan != "" {
			return nil // prefix itself not healthy: judged by C01-C03
		}
	}
	items, err, pan := decodeWith(cons, fc.Decoder, victim)
	if counters != nil {
		switch {
		case pan != "":
			counters["panic"]++
		case err != nil:
			counters["error"]++
		default:
			counters["success"]++
		}
	}
	if pan != "" {
		viol = append(viol, "consumer panicked on the damaged batch: "+pan)
	} else if err == nil {
		// success: no main record may have been discarded
		want := 0
		for _, p := range victim.ArrowPayloads {
			sig, isMain := mainTypes[p.Type]
			if !isMain || len(p.Record) == 0 {
				continue
			}
			if sig != fc.Decoder {
				viol = append(viol, fmt.Sprintf("%sFrom returned success although the batch carries a %s main record that it discarded", decName(fc.Decoder), p.Type))
				continue
			}
			if n, ok := rows[p]; ok && n >= 0 {
				want += n
			} else {
				// a clone (dup): same rows as its original
				for q, n := range rows {
					if bytes.Equal(q.Record, p.Record) && n >= 0 {
						want += n
						break
					}
				}
			}
		}
		if items < want {
			viol = append(viol, fmt.Sprintf("%sFrom returned success with %d items although the batch carried main record(s) with %d rows", decName(fc.Decoder), items, want))
		}
	}
	// the next well-formed batch must not crash the consumer either
	last := h[len(h)-1]
	got2, err2, pan2 := decodeCanon(cons, last, bars[len(h)-1])
	// a fault that only relabels payloads or appends one leaves every IPC sub-stream in step
	// (each payload was read by the reader of its schema id): the stream is still healthy, so a
	// follower that is returned with success must be the telemetry that was encoded
	inStep := len(fc.Faults) > 0
	for _, f := range fc.Faults {
		if f.Kind != "relabel" && f.Kind != "foreign" {
			inStep = false
		}
	}
	if inStep && pan2 == "" && err2 == nil && fc.Decoder == last.Sig {
		if counters != nil {
			counters["followers_compared_with_encoded_content"]++
		}
		want := canonOfLetter(last)
		if !sameCanon(got2, want) {
			viol = append(viol, fmt.Sprintf("the well-formed batch that follows the damaged one was returned with success but its content differs from what was encoded (%d decoded vs %d encoded records; first difference: %s)", len(got2), len(want), firstDiff(got2, want)))
		}
	}
	if pan2 != "" && (!uncheckedIndexing(pan2) || os.Getenv("STREAMMC_EXEMPT_FOLLOWER_PANICS") == "") {
		viol = append(viol, "consumer panicked on the well-formed batch that follows the damaged one: "+pan2)
	} else if pan2 != "" && counters != nil {
		// Not judged: the property quantifies over prefix + ONE damaged batch.  A
		// dropped payload leaves its sub-stream without dictionary entries that
		// later batches index, which reaches unchecked indexing (DESIGN.md C07).
		counters["panic_on_follower_not_judged"]++
	}
	return viol
}

func decName(d string) string { return strings.Title(d) }

func faultWorker(tier string, shard, nshard int) *WorkerOut {
	thorough := tier == "thorough"
	out := &WorkerOut{WireStates: map[string]bool{}, Events: map[string]int{}, Layers: map[string]int{}, Counters: map[string]int{}}
	idx := 0
	seen := map[string]bool{}
	// first clause on long healthy streams whose shared attribute readers are replaced on every batch
	for i, pair := range [][2]string{{"traces", "logs"}, {"logs", "metrics"}, {"metrics", "traces"}} {
		if nshard > 0 && i%nshard != shard {
			continue
		}
		h := longEvictionHistory(pair[0], pair[1], 20)
		out.Units++
		out.Transitions += len(h)
		out.Counters["healthy_long_streams"]++
		fc := FaultCase{Healthy: true}
		wex, _ := json.Marshal(fc)
		key := fmt.Sprintf("healthy %s/%s x20 with large resource attributes", pair[0], pair[1])
		wdBegin(Finding{Prop: "C07", Unit: Unit{Opts: DefaultOptions(), History: h, Tag: "healthy"}, Extra: wex, Key: key}, out)
		viol := runHealthy(h)
		wdEnd()
		for _, m := range viol {
			out.Findings = append(out.Findings, Finding{Prop: "C07", Msg: m, Unit: Unit{Opts: DefaultOptions(), History: h, Tag: "healthy"}, Key: key, Extra: wex})
		}
	}
	// first clause on healthy streams with sub-streams idle for any number of batches
	{
		n := 0
		for _, sig := range sigs() {
			for _, h := range idleGapHistories(sig, thorough) {
				n++
				if nshard > 0 && n%nshard != shard {
					continue
				}
				out.Units++
				out.Transitions += len(h)
				out.Counters["healthy_idle_gap_streams"]++
				fc := FaultCase{Healthy: true}
				wex, _ := json.Marshal(fc)
				key := fmt.Sprintf("healthy %s stream, a sub-stream idle for %d batches", sig, len(h)-4)
				wdBegin(Finding{Prop: "C07", Unit: Unit{Opts: DefaultOptions(), History: h, Tag: "healthy-idle"}, Extra: wex, Key: key}, out)
				viol := runHealthy(h)
				wdEnd()
				for _, m := range viol {
					out.Findings = append(out.Findings, Finding{Prop: "C07", Msg: m, Unit: Unit{Opts: DefaultOptions(), History: h, Tag: "healthy-idle"}, Key: key, Extra: wex})
				}
			}
		}
	}
	for _, sig := range sigs() {
		alpha := faultAlphabet(sig)
		var prefixes [][]Letter
		prefixes = append(prefixes, nil)
		for _, a := range alpha {
			prefixes = append(prefixes, []Letter{a})
		}
		if thorough {
			for _, a := range alpha {
				for _, b := range alpha {
					prefixes = append(prefixes, []Letter{a, b})
				}
			}
		}
		victims := []Letter{alpha[2], alpha[4], alpha[5]}
		// followers: a richer batch, and batches whose entities have fewer attributes than the
		// victim's (state left behind by a failed call shows up as telemetry that was never sent)
		followers := []Letter{alpha[3], alpha[0], alpha[1]}
		if thorough {
			victims = alpha
			followers = nil
			for vi := range alpha {
				followers = append(followers, alpha[(vi+3)%len(alpha)])
			}
			followers[4], followers[5] = alpha[0], alpha[1]
		}
		for _, pre := range prefixes {
			for vi, v := range victims {
				h := append(append([]Letter{}, pre...), v, followers[vi])
				idx++
				if nshard > 0 && idx%nshard != shard {
					continue
				}
				bars := encodeAll(h)
				if bars == nil {
					continue
				}
				out.States++
				n := len(bars[len(h)-2].ArrowPayloads)
				menu := faultMenu(sig, n, thorough)
				var sets [][]Fault
				for _, f := range menu {
					sets = append(sets, []Fault{f})
				}
				// pairs: all unordered pairs over a reduced menu in quick, the full menu in thorough
				pm := menu
				if !thorough || len(pre) == 2 {
					pm = nil
					for _, f := range menu {
						if f.I <= 1 && f.J <= 2 && (f.Kind != "relabel" || f.Type <= 40) {
							pm = append(pm, f)
						}
					}
				}
				if len(pre) <= 1 {
					for a := 0; a < len(pm); a++ {
						for b := a + 1; b < len(pm); b++ {
							sets = append(sets, []Fault{pm[a], pm[b]})
						}
					}
				}
				for _, fs := range sets {
					for _, dec := range sigs() {
						fc := FaultCase{Decoder: dec, Faults: fs}
						out.Transitions++
						out.Units++
						wex, _ := json.Marshal(fc)
						wdBegin(Finding{Prop: "C07", Unit: Unit{Opts: DefaultOptions(), History: h, Tag: "fault"}, Step: len(h) - 2, Extra: wex,
							Key: unitKey(Unit{Opts: DefaultOptions(), History: h}, len(h)-1) + " :: " + fmt.Sprint(fs) + " on " + dec}, out)
						viol := runFaultCaseBars(h, bars, fc, out.Counters)
						wdEnd()
						for _, m := range viol {
							var names []string
							for _, f := range fs {
								names = append(names, f.String())
							}
							key := fmt.Sprintf("%s :: %s on %s", unitKey(Unit{Opts: DefaultOptions(), History: h}, len(h)-1), strings.Join(names, "+"), dec)
							k := msgClass(m) + "|" + key
							if seen[k] {
								continue
							}
							seen[k] = true
							ex, _ := json.Marshal(fc)
							out.Findings = append(out.Findings, Finding{Prop: "C07", Msg: m, Unit: Unit{Opts: DefaultOptions(), History: h, Tag: "fault"}, Step: len(h) - 2, Key: key, Extra: ex})
						}
					}
				}
				if len(out.Samples) < 2 {
					out.Samples = append(out.Samples, fmt.Sprintf("%s with %d fault sets x 3 decoders", unitKey(Unit{Opts: DefaultOptions(), History: h}, len(h)-1), len(sets)))
				}
			}
		}
	}
	// cap the findings shipped to the parent: keep the shortest of each class
	if len(out.Findings) > 400 {
		byClass := map[string]int{}
		var keep []Finding
		for _, f := range out.Findings {
			c := msgClass(f.Msg)
			byClass[c]++
			if byClass[c] <= 40 {
				keep = append(keep, f)
			}
		}
		out.Counters["findings_dropped_same_class"] = len(out.Findings) - len(keep)
		out.Findings = keep
	}
	return out
}

func init() {
	specialWorkers["C07"] = faultWorker
	specialReplays["C07"] = func(a Artefact, path string) int {
		var fc FaultCase
		if err := json.Unmarshal(a.Extra, &fc); err != nil {
			fmt.Println("HARNESS-ERROR:", err)
			return 2
		}
		var viol []string
		if fc.Healthy {
			viol = runHealthy(a.Unit.History)
		} else {
			viol = runFaultCase(a.Unit.History, fc)
		}
		for _, m := range viol {
			fmt.Println("C07:", m)
		}
		if len(viol) > 0 {
			fmt.Printf("VIOLATION property=C07 replay=%s\n", path)
			return 1
		}
		fmt.Println("replay: no violation of C07 on this tree")
		return 0
	}
	extraCoverage["C07"] = func(outs []*WorkerOut) map[string]any {
		c := map[string]int{}
		for _, o := range outs {
			for k, v := range o.Counters {
				c[k] += v
			}
		}
		return map[string]any{"outcomes_of_damaged_batches": c, "evaluations": c["panic"] + c["error"] + c["success"],
			"distinct_nontrivial": c["error"] + c["panic"], "rule": "a case is (stream prefix, victim batch, fault set, decoder); non-trivial = the damaged batch was not decoded successfully"}
	}
}

func canonOfLetter(l Letter) []string {
	var out []string
	switch l.Sig {
	case "traces":
		out = CanonTraces(l.BuildTraces())
	case "logs":
		out = CanonLogs(l.BuildLogs())
	default:
		out = CanonMetrics(l.BuildMetrics())
	}
	sort.Strings(out)
	return out
}

func firstDiff(a, b []string) string {
	for i := 0; i < len(a) && i < len(b); i++ {
		if a[i] != b[i] {
			return trunc("decoded "+a[i]+" | encoded "+b[i], 500)
		}
	}
	return "lengths differ"
}
