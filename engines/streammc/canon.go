package main

// otlpcanon: the reference model for content.  A batch is flattened to a
// multiset of (resource, scope, record) triples rendered as canonical strings
// over exactly the fields of docs/data_model.md, with only the documented
// normalisations applied (see DESIGN.md 3.2).

import (
	"encoding/hex"
	"fmt"
	"math"
	"sort"
	"strings"

	"go.opentelemetry.io/collector/pdata/pcommon"
	"go.opentelemetry.io/collector/pdata/plog"
	"go.opentelemetry.io/collector/pdata/pmetric"
	"go.opentelemetry.io/collector/pdata/ptrace"
)

func canonFloat(f float64) string {
	if math.IsNaN(f) {
		return "NaN"
	}
	if f == 0 {
		return "0" // -0.0 == 0.0
	}
	return fmt.Sprintf("%x", math.Float64bits(f))
}

func canonValue(v pcommon.Value, nested bool) string {
	switch v.Type() {
	case pcommon.ValueTypeEmpty:
		return "unset"
	case pcommon.ValueTypeStr:
		return fmt.Sprintf("s%q", v.Str())
	case pcommon.ValueTypeInt:
		return fmt.Sprintf("i%d", v.Int())
	case pcommon.ValueTypeDouble:
		return "d" + canonFloat(v.Double())
	case pcommon.ValueTypeBool:
		return fmt.Sprintf("b%v", v.Bool())
	case pcommon.ValueTypeBytes:
		b := v.Bytes().AsRaw()
		if nested && len(b) == 0 {
			return "unset" // documented: empty bytes nested in a list/map decode as unset
		}
		return "x" + hex.EncodeToString(b)
	case pcommon.ValueTypeSlice:
		var parts []string
		for i := 0; i < v.Slice().Len(); i++ {
			parts = append(parts, canonValue(v.Slice().At(i), true))
		}
		return "[" + strings.Join(parts, ",") + "]"
	case pcommon.ValueTypeMap:
		var parts []string
		v.Map().Range(func(k string, x pcommon.Value) bool {
			parts = append(parts, fmt.Sprintf("%q:%s", k, canonValue(x, true)))
			return true
		})
		sort.Strings(parts)
		return "{" + strings.Join(parts, ",") + "}"
	}
	return "?"
}

// canonAttrs renders a top-level attribute map: entries with an empty key or
// an unset value are dropped (documented), the rest sorted by key.
func canonAttrs(m pcommon.Map) string {
	var parts []string
	m.Range(func(k string, v pcommon.Value) bool {
		if k == "" || v.Type() == pcommon.ValueTypeEmpty {
			return true
		}
		parts = append(parts, fmt.Sprintf("%q=%s", k, canonValue(v, false)))
		return true
	})
	sort.Strings(parts)
	return "{" + strings.Join(parts, ",") + "}"
}

func canonRes(r pcommon.Resource, url string) string {
	return fmt.Sprintf("R(attrs=%s dropped=%d url=%q)", canonAttrs(r.Attributes()), r.DroppedAttributesCount(), url)
}

func canonScp(s pcommon.InstrumentationScope, url string) string {
	return fmt.Sprintf("S(name=%q ver=%q attrs=%s dropped=%d url=%q)", s.Name(), s.Version(), canonAttrs(s.Attributes()), s.DroppedAttributesCount(), url)
}

func sortedJoin(parts []string) string {
	sort.Strings(parts)
	return strings.Join(parts, ";")
}

func canonSpan(sp ptrace.Span) string {
	var evs, lks []string
	for i := 0; i < sp.Events().Len(); i++ {
		e := sp.Events().At(i)
		evs = append(evs, fmt.Sprintf("E(t=%d name=%q attrs=%s dropped=%d)", uint64(e.Timestamp()), e.Name(), canonAttrs(e.Attributes()), e.DroppedAttributesCount()))
	}
	for i := 0; i < sp.Links().Len(); i++ {
		l := sp.Links().At(i)
		lks = append(lks, fmt.Sprintf("L(tid=%s sid=%s ts=%q attrs=%s dropped=%d)", hex.EncodeToString(idBytes16(l.TraceID())), hex.EncodeToString(idBytes8(l.SpanID())),
			l.TraceState().AsRaw(), canonAttrs(l.Attributes()), l.DroppedAttributesCount()))
	}
	return fmt.Sprintf("SPAN(tid=%s sid=%s ts=%q psid=%s name=%q kind=%d start=%d end=%d dA=%d dE=%d dL=%d st=%d msg=%q attrs=%s events=[%s] links=[%s])",
		hex.EncodeToString(idBytes16(sp.TraceID())), hex.EncodeToString(idBytes8(sp.SpanID())), sp.TraceState().AsRaw(), hex.EncodeToString(idBytes8(sp.ParentSpanID())),
		sp.Name(), sp.Kind(), uint64(sp.StartTimestamp()), uint64(sp.EndTimestamp()), sp.DroppedAttributesCount(), sp.DroppedEventsCount(), sp.DroppedLinksCount(),
		sp.Status().Code(), sp.Status().Message(), canonAttrs(sp.Attributes()), sortedJoin(evs), sortedJoin(lks))
}

func idBytes16(t pcommon.TraceID) []byte { return t[:] }
func idBytes8(s pcommon.SpanID) []byte   { return s[:] }

// CanonTraces returns the sorted multiset of canonical (resource|scope|span) strings.
func CanonTraces(td ptrace.Traces) []string {
	var out []string
	for i := 0; i < td.ResourceSpans().Len(); i++ {
		rs := td.ResourceSpans().At(i)
		rc := canonRes(rs.Resource(), rs.SchemaUrl())
		for j := 0; j < rs.ScopeSpans().Len(); j++ {
			ss := rs.ScopeSpans().At(j)
			sc := canonScp(ss.Scope(), ss.SchemaUrl())
			for k := 0; k < ss.Spans().Len(); k++ {
				out = append(out, rc+" | "+sc+" | "+canonSpan(ss.Spans().At(k)))
			}
		}
	}
	sort.Strings(out)
	return out
}

func canonLog(lr plog.LogRecord) string {
	return fmt.Sprintf("LOG(t=%d ot=%d tid=%s sid=%s sev=%d sevtext=%q body=%s dA=%d flags=%d attrs=%s)",
		uint64(lr.Timestamp()), uint64(lr.ObservedTimestamp()), hex.EncodeToString(idBytes16(lr.TraceID())), hex.EncodeToString(idBytes8(lr.SpanID())),
		lr.SeverityNumber(), lr.SeverityText(), canonValue(lr.Body(), false), lr.DroppedAttributesCount(), uint32(lr.Flags()), canonAttrs(lr.Attributes()))
}

func CanonLogs(ld plog.Logs) []string {
	var out []string
	for i := 0; i < ld.ResourceLogs().Len(); i++ {
		rl := ld.ResourceLogs().At(i)
		rc := canonRes(rl.Resource(), rl.SchemaUrl())
		for j := 0; j < rl.ScopeLogs().Len(); j++ {
			sl := rl.ScopeLogs().At(j)
			sc := canonScp(sl.Scope(), sl.SchemaUrl())
			for k := 0; k < sl.LogRecords().Len(); k++ {
				out = append(out, rc+" | "+sc+" | "+canonLog(sl.LogRecords().At(k)))
			}
		}
	}
	sort.Strings(out)
	return out
}

func canonExemplars(es pmetric.ExemplarSlice) string {
	var parts []string
	for i := 0; i < es.Len(); i++ {
		e := es.At(i)
		val := "none"
		switch e.ValueType() {
		case pmetric.ExemplarValueTypeInt:
			val = fmt.Sprintf("i%d", e.IntValue())
		case pmetric.ExemplarValueTypeDouble:
			val = "d" + canonFloat(e.DoubleValue())
		}
		parts = append(parts, fmt.Sprintf("X(t=%d v=%s sid=%s tid=%s attrs=%s)", uint64(e.Timestamp()), val, hex.EncodeToString(idBytes8(e.SpanID())),
			hex.EncodeToString(idBytes16(e.TraceID())), canonAttrs(e.FilteredAttributes())))
	}
	return "[" + sortedJoin(parts) + "]"
}

func optF(has bool, v float64) string {
	if !has {
		return "absent"
	}
	return canonFloat(v)
}

func u64s(s pcommon.UInt64Slice) string { return fmt.Sprint(s.AsRaw()) }
func f64s(s pcommon.Float64Slice) string {
	var parts []string
	for _, f := range s.AsRaw() {
		parts = append(parts, canonFloat(f))
	}
	return "[" + strings.Join(parts, " ") + "]"
}

func canonNumberDP(dp pmetric.NumberDataPoint) string {
	val := "none"
	switch dp.ValueType() {
	case pmetric.NumberDataPointValueTypeInt:
		val = fmt.Sprintf("i%d", dp.IntValue())
	case pmetric.NumberDataPointValueTypeDouble:
		val = "d" + canonFloat(dp.DoubleValue())
	}
	return fmt.Sprintf("NDP(start=%d t=%d v=%s flags=%d attrs=%s ex=%s)", uint64(dp.StartTimestamp()), uint64(dp.Timestamp()), val, uint32(dp.Flags()),
		canonAttrs(dp.Attributes()), canonExemplars(dp.Exemplars()))
}

func canonMetric(m pmetric.Metric) string {
	head := fmt.Sprintf("name=%q desc=%q unit=%q type=%s", m.Name(), m.Description(), m.Unit(), m.Type().String())
	var dps []string
	switch m.Type() {
	case pmetric.MetricTypeGauge:
		for i := 0; i < m.Gauge().DataPoints().Len(); i++ {
			dps = append(dps, canonNumberDP(m.Gauge().DataPoints().At(i)))
		}
	case pmetric.MetricTypeSum:
		head += fmt.Sprintf(" temp=%d mono=%v", m.Sum().AggregationTemporality(), m.Sum().IsMonotonic())
		for i := 0; i < m.Sum().DataPoints().Len(); i++ {
			dps = append(dps, canonNumberDP(m.Sum().DataPoints().At(i)))
		}
	case pmetric.MetricTypeHistogram:
		head += fmt.Sprintf(" temp=%d", m.Histogram().AggregationTemporality())
		for i := 0; i < m.Histogram().DataPoints().Len(); i++ {
			dp := m.Histogram().DataPoints().At(i)
			dps = append(dps, fmt.Sprintf("HDP(start=%d t=%d count=%d sum=%s buckets=%s bounds=%s flags=%d min=%s max=%s attrs=%s ex=%s)",
				uint64(dp.StartTimestamp()), uint64(dp.Timestamp()), dp.Count(), optF(dp.HasSum(), dp.Sum()), u64s(dp.BucketCounts()), f64s(dp.ExplicitBounds()),
				uint32(dp.Flags()), optF(dp.HasMin(), dp.Min()), optF(dp.HasMax(), dp.Max()), canonAttrs(dp.Attributes()), canonExemplars(dp.Exemplars())))
		}
	case pmetric.MetricTypeExponentialHistogram:
		head += fmt.Sprintf(" temp=%d", m.ExponentialHistogram().AggregationTemporality())
		for i := 0; i < m.ExponentialHistogram().DataPoints().Len(); i++ {
			dp := m.ExponentialHistogram().DataPoints().At(i)
			dps = append(dps, fmt.Sprintf("EHDP(start=%d t=%d count=%d sum=%s scale=%d zc=%d pos=(%d %s) neg=(%d %s) flags=%d min=%s max=%s attrs=%s ex=%s)",
				uint64(dp.StartTimestamp()), uint64(dp.Timestamp()), dp.Count(), optF(dp.HasSum(), dp.Sum()), dp.Scale(), dp.ZeroCount(),
				dp.Positive().Offset(), u64s(dp.Positive().BucketCounts()), dp.Negative().Offset(), u64s(dp.Negative().BucketCounts()),
				uint32(dp.Flags()), optF(dp.HasMin(), dp.Min()), optF(dp.HasMax(), dp.Max()), canonAttrs(dp.Attributes()), canonExemplars(dp.Exemplars())))
		}
	case pmetric.MetricTypeSummary:
		for i := 0; i < m.Summary().DataPoints().Len(); i++ {
			dp := m.Summary().DataPoints().At(i)
			var qs []string
			for q := 0; q < dp.QuantileValues().Len(); q++ {
				qv := dp.QuantileValues().At(q)
				qs = append(qs, fmt.Sprintf("(%s %s)", canonFloat(qv.Quantile()), canonFloat(qv.Value())))
			}
			dps = append(dps, fmt.Sprintf("SDP(start=%d t=%d count=%d sum=%s flags=%d q=[%s] attrs=%s)", uint64(dp.StartTimestamp()), uint64(dp.Timestamp()), dp.Count(),
				canonFloat(dp.Sum()), uint32(dp.Flags()), sortedJoin(qs), canonAttrs(dp.Attributes())))
		}
	}
	return "METRIC(" + head + " points=[" + sortedJoin(dps) + "])"
}

func CanonMetrics(md pmetric.Metrics) []string {
	var out []string
	for i := 0; i < md.ResourceMetrics().Len(); i++ {
		rm := md.ResourceMetrics().At(i)
		rc := canonRes(rm.Resource(), rm.SchemaUrl())
		for j := 0; j < rm.ScopeMetrics().Len(); j++ {
			sm := rm.ScopeMetrics().At(j)
			sc := canonScp(sm.Scope(), sm.SchemaUrl())
			for k := 0; k < sm.Metrics().Len(); k++ {
				out = append(out, rc+" | "+sc+" | "+canonMetric(sm.Metrics().At(k)))
			}
		}
	}
	sort.Strings(out)
	return out
}

// diffCanon explains the first difference between two sorted multisets.
func diffCanon(want, got []string) string {
	w := map[string]int{}
	for _, s := range want {
		w[s]++
	}
	for _, s := range got {
		w[s]--
	}
	var missing, extra []string
	for s, n := range w {
		for ; n > 0; n-- {
			missing = append(missing, s)
		}
		for ; n < 0; n++ {
			extra = append(extra, s)
		}
	}
	if len(missing) == 0 && len(extra) == 0 {
		return ""
	}
	sort.Strings(missing)
	sort.Strings(extra)
	var b strings.Builder
	fmt.Fprintf(&b, "%s; %d encoded item(s) not decoded as such, %d decoded item(s) that were not encoded", diffSig(missing, extra), len(missing), len(extra))
	if len(missing) > 0 {
		fmt.Fprintf(&b, "\n  encoded: %s", trunc(missing[0], 1200))
	}
	if len(extra) > 0 {
		fmt.Fprintf(&b, "\n  decoded: %s", trunc(extra[0], 1200))
	}
	return b.String()
}

func trunc(s string, n int) string {
	if len(s) > n {
		return s[:n] + "..."
	}
	return s
}

// diffSig names the parts in which the closest (encoded, decoded) pair differs.
func diffSig(missing, extra []string) string {
	if len(missing) == 0 {
		return "extra items decoded"
	}
	if len(extra) == 0 {
		return "items lost"
	}
	best := ""
	bestN := 1 << 30
	for _, m := range missing[:min(len(missing), 4)] {
		for _, e := range extra[:min(len(extra), 4)] {
			mp, ep := strings.SplitN(m, " | ", 3), strings.SplitN(e, " | ", 3)
			if len(mp) != 3 || len(ep) != 3 {
				continue
			}
			var d []string
			for i, name := range []string{"resource", "scope", "record"} {
				if mp[i] != ep[i] {
					d = append(d, name+"("+fieldDiff(mp[i], ep[i])+")")
				}
			}
			if len(d) < bestN || (len(d) == bestN && strings.Join(d, ",") < best) {
				bestN = len(d)
				best = strings.Join(d, ",")
			}
		}
	}
	return "differs in " + best
}

func fieldDiff(a, b string) string {
	fa, fb := strings.Fields(a), strings.Fields(b)
	var d []string
	for i := 0; i < len(fa) && i < len(fb); i++ {
		if fa[i] != fb[i] {
			name := fa[i]
			if j := strings.IndexAny(name, "=["); j > 0 {
				name = name[:j]
			}
			if k := strings.LastIndex(name, "("); k >= 0 {
				name = name[k+1:]
			}
			d = append(d, name)
			if len(d) >= 3 {
				break
			}
		}
	}
	if len(fa) != len(fb) {
		d = append(d, "shape")
	}
	return strings.Join(d, "+")
}
