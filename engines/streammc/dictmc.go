package main

// dictmc (C13): explicit-state search on the real transform.DictionaryField
// step function.  The environment models what RecordBuilderExt does around
// it: a record with d fresh distinct values and t rows brings the dictionary
// to cardinality acc+d; if the field asks for a schema update the record is
// discarded, counters are reverted, the builder (hence the dictionary) is
// recreated empty and the record is built again (cardinality d), at most 5
// times; otherwise the record is sent and acc grows.

import (
	"fmt"
	"math"

	"github.com/apache/arrow-go/v18/arrow"

	dcfg "github.com/open-telemetry/otel-arrow/pkg/otel/common/schema/config"
	"github.com/open-telemetry/otel-arrow/pkg/otel/common/schema/events"
	"github.com/open-telemetry/otel-arrow/pkg/otel/common/schema/transform"
	"github.com/open-telemetry/otel-arrow/pkg/otel/common/schema/update"
	"github.com/open-telemetry/otel-arrow/pkg/otel/stats"
)

type dictObs struct {
	D uint64 // fresh distinct values in this record
	T uint64 // rows in this record
}

type dictState struct {
	field *transform.DictionaryField
	req   *update.SchemaUpdateRequest
	acc   uint64 // entries in the live dictionary
}

func newDictState(maxCard uint64, minCard uint64, thr float64) *dictState {
	req := update.NewSchemaUpdateRequest()
	ev := &events.Events{DictionariesWithOverflow: map[string]bool{}, DictionariesIndexTypeChanged: map[string]string{}}
	c := dcfg.NewDictionaryFrom(minCard, dcfg.NewDictionary(maxCard, thr))
	return &dictState{field: transform.NewDictionaryField("col", "1", c, req, ev), req: req}
}

func capacityOf(t arrow.DataType) float64 {
	switch t.ID() {
	case arrow.UINT8:
		return math.MaxUint8
	case arrow.UINT16:
		return math.MaxUint16
	case arrow.UINT32:
		return math.MaxUint32
	case arrow.UINT64:
		return math.MaxUint64
	}
	return 0
}

// apply sends one record; returns a violation message or "".
func (s *dictState) apply(o dictObs, limit uint64, st *stats.RecordBuilderStats) string {
	for attempt := 0; ; attempt++ {
		if s.field.IndexType() == nil {
			// plain column: no dictionary is sent any more
			s.acc = 0
			return ""
		}
		card := s.acc + o.D
		if attempt > 0 {
			card = o.D // the builder was recreated: fresh dictionary
		}
		s.field.AddTotal(int(o.T))
		s.field.SetCardinality(card, st)
		if s.req.Count() == 0 {
			// the record is sent with this dictionary
			it := s.field.IndexType()
			if it == nil {
				return fmt.Sprintf("record sent although the index type vanished without a schema update")
			}
			if float64(card) > capacityOf(it) {
				return fmt.Sprintf("record sent with %d dictionary entries under a %s index", card, it)
			}
			if limit > 0 && card > limit {
				return fmt.Sprintf("record sent with %d dictionary entries, configured limit %d", card, limit)
			}
			s.acc = card
			return ""
		}
		// schema update: discard, revert, rebuild
		s.req.Reset()
		s.field.RevertCounters()
		s.acc = 0
		if attempt >= 5 {
			return "more than 5 consecutive schema updates for one record (the producer panics)"
		}
	}
}

func (s *dictState) key() string {
	it := "plain"
	if t := s.field.IndexType(); t != nil {
		it = t.Name()
	}
	return fmt.Sprintf("%s/acc=%d/tot=%d", it, s.acc, s.field.CumulativeTotal())
}

func dictWorkerPart(tier string, shard, nshard int, out *WorkerOut) {
	thorough := tier == "thorough"
	cards := []uint64{0, 1, 100, 254, 255, 256, 300, 65534, 65535, 65536, 70000, math.MaxUint32 - 1, math.MaxUint32, math.MaxUint32 + 1}
	var alpha []dictObs
	for _, c := range cards {
		alpha = append(alpha, dictObs{D: c, T: maxu(c, 1)}, dictObs{D: c, T: maxu(c, 1) * 4})
	}
	alpha = append(alpha, dictObs{D: 0, T: 1000}, dictObs{D: 1, T: 100000})
	depth := 4
	if thorough {
		depth = 5
	}
	idx := 0
	for _, limit := range []uint64{math.MaxUint8, math.MaxUint16, math.MaxUint32, math.MaxUint64} {
		for _, minCard := range []uint64{math.MaxUint8, math.MaxUint16} {
			for _, thr := range []float64{0, 0.3, 1, 1e18} {
				idx++
				if nshard > 0 && idx%nshard != shard {
					continue
				}
				cfgName := fmt.Sprintf("dictmc limit=%d init=%d reset=%g", limit, minCard, thr)
				// BFS over histories, deduplicated by the abstract state key
				type node struct{ hist []int }
				seen := map[string]bool{}
				frontier := []node{{}}
				st := &stats.RecordBuilderStats{}
				for d := 0; d <= depth && len(frontier) > 0; d++ {
					var next []node
					for _, n := range frontier {
						for ai := range alpha {
							// successor = replay on a fresh field + one observation
							var s *dictState
							bad := ""
							if pan := protect(func() {
								s = newDictState(limit, minCard, thr)
								for _, h := range n.hist {
									s.apply(alpha[h], limit, st)
								}
								bad = s.apply(alpha[ai], limit, st)
							}); pan != "" {
								bad = "the dictionary state machine panicked: " + firstLine(pan)
							}
							out.Transitions++
							if bad != "" {
								k := cfgName + "|" + msgClass(bad)
								if !seen["V"+k] {
									seen["V"+k] = true
									var hs []string
									for _, h := range append(append([]int{}, n.hist...), ai) {
										hs = append(hs, fmt.Sprintf("(d=%d,t=%d)", alpha[h].D, alpha[h].T))
									}
									out.Findings = append(out.Findings, Finding{Prop: "C13", Msg: bad, Key: cfgName + " :: " + fmt.Sprint(hs), Unit: Unit{Tag: "dictmc"}})
								}
								continue
							}
							k := s.key()
							if seen[k] {
								continue
							}
							seen[k] = true
							out.States++
							next = append(next, node{hist: append(append([]int{}, n.hist...), ai)})
						}
					}
					frontier = next
				}
				out.Layers["dictmc-configs"]++
				out.Counters["dictmc_states"] += len(seen)
			}
		}
	}
}

func maxu(a, b uint64) uint64 {
	if a > b {
		return a
	}
	return b
}
