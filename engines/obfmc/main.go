// obfmc (C17): bounded-exhaustive enumeration of documents, modes and keys for
// the obfuscation processor; every document is compared token by token with
// what the next consumer receives.
package main

import (
	"context"
	"crypto/rand"
	"crypto/sha256"
	"encoding/hex"
	"encoding/json"
	"flag"
	"fmt"
	"os"
	"path/filepath"
	"regexp"
	"sort"
	"strings"
	"sync"
	"time"

	"go.opentelemetry.io/collector/component"
	"go.opentelemetry.io/collector/component/componenttest"
	"go.opentelemetry.io/collector/consumer"
	"go.opentelemetry.io/collector/pdata/pcommon"
	"go.opentelemetry.io/collector/pdata/plog"
	"go.opentelemetry.io/collector/pdata/pmetric"
	"go.opentelemetry.io/collector/pdata/ptrace"
	"go.opentelemetry.io/collector/processor"
	"go.uber.org/zap"

	obf "github.com/open-telemetry/otel-arrow/collector/processor/obfuscationprocessor"
)

// ---- owned randomness: the key comes from a seeded reader -------------------

type seedReader struct {
	seed  byte
	zeros bool
	n     int
}

func (r *seedReader) Read(p []byte) (int, error) {
	for i := range p {
		if r.zeros {
			p[i] = 0
		} else {
			r.n++
			h := sha256.Sum256([]byte{r.seed, byte(r.n), byte(r.n >> 8)})
			p[i] = h[0]
		}
	}
	return len(p), nil
}

// ---- documents -----------------------------------------------------------------

type Doc struct {
	Sig   string `json:"sig"`
	Shape int    `json:"shape"` // container layout
	A     []int  `json:"a"`     // attribute archetypes used, in order of need
}

var strs = []string{"", "a", "b", "ab", "ba", "é", "日本", "seventeen bytes!!", "secret"}

const NumAttrArch = 14

func fillAttrs(i int, m pcommon.Map) {
	switch i % NumAttrArch {
	case 0:
	case 1:
		m.PutStr("k", "a")
	case 2:
		m.PutStr("secret", "ab")
		m.PutStr("k", "ab")
	case 3:
		m.PutStr("k", "b")
		m.PutInt("secret", 7)
		m.PutStr("é", "é")
	case 4:
		m.PutStr("secret", "")
		m.PutBool("k", true)
		m.PutDouble("é", 1.5)
	case 5:
		m.PutEmptyBytes("secret").FromRaw([]byte("ab"))
		m.PutEmptyBytes("k").FromRaw([]byte{0xff, 0x00})
	case 6:
		sl := m.PutEmptySlice("secret")
		sl.AppendEmpty().SetStr("a")
		sl.AppendEmpty().SetInt(3)
		sl.AppendEmpty().SetEmptyBytes().FromRaw([]byte("ba"))
		sl.AppendEmpty().SetEmptySlice().AppendEmpty().SetStr("日本")
		sl2 := m.PutEmptySlice("k")
		sl2.AppendEmpty().SetStr("a")
	case 7:
		mm := m.PutEmptyMap("secret")
		mm.PutStr("k", "a")
		mm.PutStr("secret", "b")
		mm.PutInt("n", 1)
		mm2 := m.PutEmptyMap("k")
		mm2.PutStr("secret", "ab")
		mm2.PutStr("k", "ba")
	case 8:
		m.PutStr("é", "日本")
		m.PutStr("secret", "seventeen bytes!!")
		m.PutEmpty("k")
	case 9:
		m.PutStr("k", "ab")
		m.PutStr("k2", "ab")
		m.PutStr("secret", "ab")
	case 10:
		m.PutStr("a", "k")
		m.PutStr("b", "secret")
		m.PutStr("secret", "secret")
	case 11:
		mm := m.PutEmptyMap("secret")
		sl := mm.PutEmptySlice("k")
		sl.AppendEmpty().SetEmptyMap().PutStr("secret", "é")
		sl.AppendEmpty().SetStr("é")
	case 12:
		m.PutInt("i", 1)
		m.PutDouble("d", 2)
		m.PutBool("b", false)
	case 13:
		m.PutStr("secret", "a")
	}
}

type attrSrc struct {
	a []int
	i int
}

func (s *attrSrc) next(m pcommon.Map) {
	if len(s.a) == 0 {
		return
	}
	fillAttrs(s.a[s.i%len(s.a)], m)
	s.i++
}

func buildTraces(d Doc) ptrace.Traces {
	td := ptrace.NewTraces()
	src := &attrSrc{a: d.A}
	nres, nsc, nsp := 1+d.Shape%2, 1+(d.Shape/2)%2, 1+(d.Shape/4)%2
	n := 0
	for r := 0; r < nres; r++ {
		rs := td.ResourceSpans().AppendEmpty()
		rs.SetSchemaUrl("url-r")
		src.next(rs.Resource().Attributes())
		rs.Resource().SetDroppedAttributesCount(uint32(r + 1))
		for s := 0; s < nsc; s++ {
			ss := rs.ScopeSpans().AppendEmpty()
			ss.Scope().SetName(strs[(n+1)%len(strs)])
			ss.Scope().SetVersion(strs[(n+3)%len(strs)])
			src.next(ss.Scope().Attributes())
			for k := 0; k < nsp; k++ {
				n++
				sp := ss.Spans().AppendEmpty()
				sp.SetName(strs[n%len(strs)])
				sp.SetTraceID(pcommon.TraceID{byte(n), 1})
				sp.SetSpanID(pcommon.SpanID{byte(n), 2})
				sp.SetStartTimestamp(pcommon.Timestamp(100 + n))
				sp.SetEndTimestamp(pcommon.Timestamp(200 + n))
				sp.SetKind(ptrace.SpanKindServer)
				sp.Status().SetMessage(strs[(n+2)%len(strs)])
				sp.Status().SetCode(ptrace.StatusCodeError)
				sp.TraceState().FromRaw("ts=1")
				src.next(sp.Attributes())
				for e := 0; e < 1+n%2; e++ {
					ev := sp.Events().AppendEmpty()
					ev.SetName(strs[(n+e)%len(strs)])
					ev.SetTimestamp(pcommon.Timestamp(150 + e))
					src.next(ev.Attributes())
				}
				for l := 0; l < n%2+1; l++ {
					lk := sp.Links().AppendEmpty()
					lk.SetTraceID(pcommon.TraceID{9, byte(l)})
					lk.TraceState().FromRaw("l=1")
					src.next(lk.Attributes())
				}
			}
		}
	}
	return td
}

func buildLogs(d Doc) plog.Logs {
	ld := plog.NewLogs()
	src := &attrSrc{a: d.A}
	nres, nsc, nrec := 1+d.Shape%2, 1+(d.Shape/2)%2, 1+(d.Shape/4)%2
	n := 0
	for r := 0; r < nres; r++ {
		rl := ld.ResourceLogs().AppendEmpty()
		src.next(rl.Resource().Attributes())
		for s := 0; s < nsc; s++ {
			sl := rl.ScopeLogs().AppendEmpty()
			sl.Scope().SetName("scope")
			src.next(sl.Scope().Attributes())
			for k := 0; k < nrec; k++ {
				n++
				lr := sl.LogRecords().AppendEmpty()
				lr.Body().SetStr(strs[n%len(strs)])
				lr.SetSeverityText("INFO")
				lr.SetSeverityNumber(plog.SeverityNumberInfo)
				lr.SetTimestamp(pcommon.Timestamp(n))
				src.next(lr.Attributes())
			}
		}
	}
	return ld
}

func buildMetrics(d Doc) pmetric.Metrics {
	md := pmetric.NewMetrics()
	src := &attrSrc{a: d.A}
	nres, nsc := 1+d.Shape%2, 1+(d.Shape/2)%2
	n := 0
	for r := 0; r < nres; r++ {
		rm := md.ResourceMetrics().AppendEmpty()
		src.next(rm.Resource().Attributes())
		for s := 0; s < nsc; s++ {
			sm := rm.ScopeMetrics().AppendEmpty()
			sm.Scope().SetName("scope")
			src.next(sm.Scope().Attributes())
			for t := 0; t < 5; t++ {
				n++
				m := sm.Metrics().AppendEmpty()
				m.SetName(fmt.Sprintf("m%d", t))
				m.SetUnit("By")
				npts := 1 + (d.Shape/4)%2
				for p := 0; p < npts; p++ {
					switch t {
					case 0:
						if p == 0 {
							m.SetEmptyGauge()
						}
						dp := m.Gauge().DataPoints().AppendEmpty()
						dp.SetIntValue(int64(n))
						src.next(dp.Attributes())
					case 1:
						if p == 0 {
							m.SetEmptySum().SetIsMonotonic(true)
						}
						dp := m.Sum().DataPoints().AppendEmpty()
						dp.SetDoubleValue(1.5)
						src.next(dp.Attributes())
					case 2:
						if p == 0 {
							m.SetEmptyHistogram()
						}
						dp := m.Histogram().DataPoints().AppendEmpty()
						dp.SetCount(3)
						dp.BucketCounts().FromRaw([]uint64{1, 2})
						dp.ExplicitBounds().FromRaw([]float64{1})
						src.next(dp.Attributes())
					case 3:
						if p == 0 {
							m.SetEmptyExponentialHistogram()
						}
						dp := m.ExponentialHistogram().DataPoints().AppendEmpty()
						dp.SetCount(2)
						dp.Positive().BucketCounts().FromRaw([]uint64{2})
						src.next(dp.Attributes())
					case 4:
						if p == 0 {
							m.SetEmptySummary()
						}
						dp := m.Summary().DataPoints().AppendEmpty()
						dp.SetCount(1)
						dp.QuantileValues().AppendEmpty().SetQuantile(0.5)
						src.next(dp.Attributes())
					}
				}
			}
		}
	}
	return md
}

// ---- token walk ------------------------------------------------------------------

type Tok struct {
	Kind     byte   // 's' structure, 'k' attribute key, 'v' string value, 'y' bytes value, 'n' non-attribute string
	Text     string
	Targeted bool
	Optional bool // may be replaced or not (listed key nested under a non-targeted attribute)
	Where    string
}

type walker struct {
	optional bool
	toks    []Tok
	all     bool
	listed  map[string]bool
	path    []string
}

func (w *walker) st(format string, a ...any) { w.toks = append(w.toks, Tok{Kind: 's', Text: fmt.Sprintf(format, a...), Where: strings.Join(w.path, "/")}) }
func (w *walker) push(s string)              { w.path = append(w.path, s) }
func (w *walker) pop()                       { w.path = w.path[:len(w.path)-1] }

func (w *walker) value(v pcommon.Value, targeted bool) {
	switch v.Type() {
	case pcommon.ValueTypeStr:
		w.toks = append(w.toks, Tok{Kind: 'v', Text: v.Str(), Targeted: targeted, Optional: w.optional, Where: strings.Join(w.path, "/")})
	case pcommon.ValueTypeBytes:
		w.toks = append(w.toks, Tok{Kind: 'y', Text: string(v.Bytes().AsRaw()), Targeted: targeted, Optional: w.optional, Where: strings.Join(w.path, "/")})
	case pcommon.ValueTypeSlice:
		w.st("slice(%d)", v.Slice().Len())
		for i := 0; i < v.Slice().Len(); i++ {
			w.push(fmt.Sprintf("[%d]", i))
			// inside a targeted attribute every element is targeted; nested maps apply the key rule again
			w.value(v.Slice().At(i), targeted)
			w.pop()
		}
	case pcommon.ValueTypeMap:
		if !targeted && !w.optional {
			// a map under a non-targeted attribute: the processor may or may not look inside
			w.optional = true
			w.attrs(v.Map(), false)
			w.optional = false
		} else {
			w.attrs(v.Map(), targeted)
		}
	default:
		w.st("%s:%s", v.Type(), v.AsString())
	}
}

// attrs walks an attribute map.  inTargeted: this map is the value of a targeted attribute.
func (w *walker) attrs(m pcommon.Map, inTargeted bool) {
	w.st("map(%d)", m.Len())
	i := 0
	m.Range(func(k string, v pcommon.Value) bool {
		t := w.all || w.listed[k]
		w.push(fmt.Sprintf("attr#%d", i))
		w.toks = append(w.toks, Tok{Kind: 'k', Text: k, Targeted: t, Optional: w.optional, Where: strings.Join(w.path, "/")})
		w.st("type=%s", v.Type())
		w.value(v, t)
		w.pop()
		i++
		return true
	})
}

func (w *walker) nonAttr(name, s string) {
	w.toks = append(w.toks, Tok{Kind: 'n', Text: s, Where: strings.Join(w.path, "/") + "/" + name})
}

func (w *walker) traces(td ptrace.Traces) {
	w.st("resources=%d", td.ResourceSpans().Len())
	for i := 0; i < td.ResourceSpans().Len(); i++ {
		rs := td.ResourceSpans().At(i)
		w.push(fmt.Sprintf("res#%d", i))
		w.st("url=%q dropped=%d", rs.SchemaUrl(), rs.Resource().DroppedAttributesCount())
		w.attrs(rs.Resource().Attributes(), false)
		w.st("scopes=%d", rs.ScopeSpans().Len())
		for j := 0; j < rs.ScopeSpans().Len(); j++ {
			ss := rs.ScopeSpans().At(j)
			w.push(fmt.Sprintf("scope#%d", j))
			w.nonAttr("scope.name", ss.Scope().Name())
			w.nonAttr("scope.version", ss.Scope().Version())
			w.attrs(ss.Scope().Attributes(), false)
			w.st("spans=%d", ss.Spans().Len())
			for k := 0; k < ss.Spans().Len(); k++ {
				sp := ss.Spans().At(k)
				w.push(fmt.Sprintf("span#%d", k))
				w.nonAttr("span.name", sp.Name())
				w.nonAttr("status.message", sp.Status().Message())
				w.st("tid=%x sid=%x psid=%x ts=%q kind=%d start=%d end=%d code=%d dA=%d dE=%d dL=%d", sp.TraceID(), sp.SpanID(), sp.ParentSpanID(), sp.TraceState().AsRaw(), sp.Kind(),
					sp.StartTimestamp(), sp.EndTimestamp(), sp.Status().Code(), sp.DroppedAttributesCount(), sp.DroppedEventsCount(), sp.DroppedLinksCount())
				w.attrs(sp.Attributes(), false)
				w.st("events=%d", sp.Events().Len())
				for e := 0; e < sp.Events().Len(); e++ {
					ev := sp.Events().At(e)
					w.push(fmt.Sprintf("event#%d", e))
					w.nonAttr("event.name", ev.Name())
					w.st("t=%d d=%d", ev.Timestamp(), ev.DroppedAttributesCount())
					w.attrs(ev.Attributes(), false)
					w.pop()
				}
				w.st("links=%d", sp.Links().Len())
				for l := 0; l < sp.Links().Len(); l++ {
					lk := sp.Links().At(l)
					w.push(fmt.Sprintf("link#%d", l))
					w.st("tid=%x sid=%x ts=%q d=%d", lk.TraceID(), lk.SpanID(), lk.TraceState().AsRaw(), lk.DroppedAttributesCount())
					w.attrs(lk.Attributes(), false)
					w.pop()
				}
				w.pop()
			}
			w.pop()
		}
		w.pop()
	}
}

func (w *walker) logs(ld plog.Logs) {
	w.st("resources=%d", ld.ResourceLogs().Len())
	for i := 0; i < ld.ResourceLogs().Len(); i++ {
		rl := ld.ResourceLogs().At(i)
		w.push(fmt.Sprintf("res#%d", i))
		w.attrs(rl.Resource().Attributes(), false)
		w.st("scopes=%d", rl.ScopeLogs().Len())
		for j := 0; j < rl.ScopeLogs().Len(); j++ {
			sl := rl.ScopeLogs().At(j)
			w.push(fmt.Sprintf("scope#%d", j))
			w.nonAttr("scope.name", sl.Scope().Name())
			w.attrs(sl.Scope().Attributes(), false)
			w.st("records=%d", sl.LogRecords().Len())
			for k := 0; k < sl.LogRecords().Len(); k++ {
				lr := sl.LogRecords().At(k)
				w.push(fmt.Sprintf("log#%d", k))
				w.st("t=%d sev=%d flags=%d bodytype=%s", lr.Timestamp(), lr.SeverityNumber(), lr.Flags(), lr.Body().Type())
				w.nonAttr("body", lr.Body().AsString())
				w.nonAttr("severity_text", lr.SeverityText())
				w.attrs(lr.Attributes(), false)
				w.pop()
			}
			w.pop()
		}
		w.pop()
	}
}

func (w *walker) metrics(md pmetric.Metrics) {
	w.st("resources=%d", md.ResourceMetrics().Len())
	for i := 0; i < md.ResourceMetrics().Len(); i++ {
		rm := md.ResourceMetrics().At(i)
		w.push(fmt.Sprintf("res#%d", i))
		w.attrs(rm.Resource().Attributes(), false)
		w.st("scopes=%d", rm.ScopeMetrics().Len())
		for j := 0; j < rm.ScopeMetrics().Len(); j++ {
			sm := rm.ScopeMetrics().At(j)
			w.push(fmt.Sprintf("scope#%d", j))
			w.nonAttr("scope.name", sm.Scope().Name())
			w.attrs(sm.Scope().Attributes(), false)
			w.st("metrics=%d", sm.Metrics().Len())
			for k := 0; k < sm.Metrics().Len(); k++ {
				m := sm.Metrics().At(k)
				w.push(fmt.Sprintf("metric#%d", k))
				w.nonAttr("metric.name", m.Name())
				w.nonAttr("metric.unit", m.Unit())
				w.st("type=%s", m.Type())
				dpAttrs := func(n int, at func(int) (pcommon.Map, string)) {
					w.st("points=%d", n)
					for p := 0; p < n; p++ {
						a, vals := at(p)
						w.push(fmt.Sprintf("dp#%d", p))
						w.st("%s", vals)
						w.attrs(a, false)
						w.pop()
					}
				}
				switch m.Type() {
				case pmetric.MetricTypeGauge:
					dpAttrs(m.Gauge().DataPoints().Len(), func(p int) (pcommon.Map, string) {
						d := m.Gauge().DataPoints().At(p)
						return d.Attributes(), fmt.Sprintf("i=%d d=%v t=%d", d.IntValue(), d.DoubleValue(), d.Timestamp())
					})
				case pmetric.MetricTypeSum:
					dpAttrs(m.Sum().DataPoints().Len(), func(p int) (pcommon.Map, string) {
						d := m.Sum().DataPoints().At(p)
						return d.Attributes(), fmt.Sprintf("i=%d d=%v mono=%v", d.IntValue(), d.DoubleValue(), m.Sum().IsMonotonic())
					})
				case pmetric.MetricTypeHistogram:
					dpAttrs(m.Histogram().DataPoints().Len(), func(p int) (pcommon.Map, string) {
						d := m.Histogram().DataPoints().At(p)
						return d.Attributes(), fmt.Sprintf("c=%d b=%v e=%v", d.Count(), d.BucketCounts().AsRaw(), d.ExplicitBounds().AsRaw())
					})
				case pmetric.MetricTypeExponentialHistogram:
					dpAttrs(m.ExponentialHistogram().DataPoints().Len(), func(p int) (pcommon.Map, string) {
						d := m.ExponentialHistogram().DataPoints().At(p)
						return d.Attributes(), fmt.Sprintf("c=%d b=%v", d.Count(), d.Positive().BucketCounts().AsRaw())
					})
				case pmetric.MetricTypeSummary:
					dpAttrs(m.Summary().DataPoints().Len(), func(p int) (pcommon.Map, string) {
						d := m.Summary().DataPoints().At(p)
						return d.Attributes(), fmt.Sprintf("c=%d q=%d", d.Count(), d.QuantileValues().Len())
					})
				}
				w.pop()
			}
			w.pop()
		}
		w.pop()
	}
}

// ---- the case runner -------------------------------------------------------------------

type Mode struct {
	All  bool     `json:"all"`
	List []string `json:"list"`
	// Cipher parameters: nil = the factory default (rounds 10, key_length 128).  Config has no
	// Validate, so every integer is a configuration the processor starts with.
	Rounds    *int `json:"rounds,omitempty"`
	KeyLength *int `json:"key_length,omitempty"`
}

func (m Mode) apply(cfg *obf.Config) {
	if m.Rounds != nil {
		cfg.Rounds = *m.Rounds
	}
	if m.KeyLength != nil {
		cfg.KeyLength = *m.KeyLength
	}
}

func ip(i int) *int { return &i }

type Case struct {
	Mode Mode  `json:"mode"`
	Seed int   `json:"seed"` // 0 = all-zero key bytes
	Docs []Doc `json:"docs"`
	// Ctx: 0 background, 1 already cancelled, k>1: turns cancelled after k calls of Err()
	Ctx int `json:"ctx,omitempty"`
}

// flakyCtx reports cancellation after a number of Err() calls.
type flakyCtx struct {
	context.Context
	left int
	done chan struct{}
}

func (c *flakyCtx) Err() error {
	if c.left > 0 {
		c.left--
		if c.left == 0 {
			close(c.done)
		}
		return nil
	}
	return context.Canceled
}
func (c *flakyCtx) Done() <-chan struct{} { return c.done }

func caseCtx(k int) context.Context {
	switch {
	case k == 1:
		ctx, cancel := context.WithCancel(context.Background())
		cancel()
		return ctx
	case k > 1:
		return &flakyCtx{Context: context.Background(), left: k, done: make(chan struct{})}
	}
	return context.Background()
}

func (c Case) String() string {
	b, _ := json.Marshal(c)
	return string(b)
}

type relation struct {
	fwd map[string]string
	bwd map[string]string
}

func newRel() *relation { return &relation{fwd: map[string]string{}, bwd: map[string]string{}} }

func (r *relation) add(kind, orig, out string) string {
	if len(orig) != len(out) {
		return fmt.Sprintf("%s %q (%d bytes) was replaced by %q (%d bytes): byte length not preserved", kind, orig, len(orig), out, len(out))
	}
	if prev, ok := r.fwd[orig]; ok && prev != out {
		return fmt.Sprintf("%s %q was replaced by %q and, elsewhere in the life of the same processor, by %q: not a function of the original", kind, orig, prev, out)
	}
	if prev, ok := r.bwd[out]; ok && prev != orig {
		return fmt.Sprintf("%s %q and %q are both replaced by %q: not injective", kind, prev, orig, out)
	}
	r.fwd[orig], r.bwd[out] = out, orig
	return ""
}

func settings() processor.Settings {
	ts := componenttest.NewNopTelemetrySettings()
	ts.Logger = zap.NewNop()
	return processor.Settings{ID: component.NewID(obf.NewFactory().Type()), TelemetrySettings: ts, BuildInfo: component.NewDefaultBuildInfo()}
}

func runCase(c Case, counters map[string]int) (viol []string) {
	rand.Reader = &seedReader{seed: byte(c.Seed), zeros: c.Seed == 0}
	f := obf.NewFactory()
	cfg := f.CreateDefaultConfig().(*obf.Config)
	cfg.EncryptAll = c.Mode.All
	cfg.EncryptAttributes = append([]string{}, c.Mode.List...)
	c.Mode.apply(cfg)
	listed := map[string]bool{}
	for _, k := range c.Mode.List {
		listed[k] = true
	}
	all := c.Mode.All && len(c.Mode.List) == 0
	bg := context.Background()
	ctx := caseCtx(c.Ctx)
	var got any
	tn, _ := consumer.NewTraces(func(_ context.Context, td ptrace.Traces) error { got = td; return nil })
	ln, _ := consumer.NewLogs(func(_ context.Context, ld plog.Logs) error { got = ld; return nil })
	mn, _ := consumer.NewMetrics(func(_ context.Context, md pmetric.Metrics) error { got = md; return nil })
	var tp processor.Traces
	var lp processor.Logs
	var mp processor.Metrics
	rstr, rbytes := newRel(), newRel()
	add := func(format string, a ...any) { viol = append(viol, fmt.Sprintf(format, a...)) }
	for di, d := range c.Docs {
		wo := &walker{all: all, listed: listed}
		wg := &walker{all: all, listed: listed}
		var err error
		got = nil
		pan := ""
		func() {
			defer func() {
				if r := recover(); r != nil {
					pan = fmt.Sprint(r)
				}
			}()
			switch d.Sig {
			case "traces":
				if tp == nil {
					tp, err = f.CreateTraces(bg, settings(), cfg, tn)
					if err != nil {
						return
					}
					tp.Start(bg, componenttest.NewNopHost())
				}
				wo.traces(buildTraces(d))
				err = tp.ConsumeTraces(ctx, buildTraces(d))
				if g, ok := got.(ptrace.Traces); ok {
					wg.traces(g)
				}
			case "logs":
				if lp == nil {
					lp, err = f.CreateLogs(bg, settings(), cfg, ln)
					if err != nil {
						return
					}
					lp.Start(bg, componenttest.NewNopHost())
				}
				wo.logs(buildLogs(d))
				err = lp.ConsumeLogs(ctx, buildLogs(d))
				if g, ok := got.(plog.Logs); ok {
					wg.logs(g)
				}
			case "metrics":
				if mp == nil {
					mp, err = f.CreateMetrics(bg, settings(), cfg, mn)
					if err != nil {
						return
					}
					mp.Start(bg, componenttest.NewNopHost())
				}
				wo.metrics(buildMetrics(d))
				err = mp.ConsumeMetrics(ctx, buildMetrics(d))
				if g, ok := got.(pmetric.Metrics); ok {
					wg.metrics(g)
				}
			}
		}()
		if pan != "" {
			add("document %d: processor panicked: %s", di, pan)
			continue
		}
		if (err != nil || got == nil) && c.Ctx != 0 {
			counters["documents_refused_under_done_context"]++
			continue // refusing a request whose context is done drops nothing downstream
		}
		if err != nil || got == nil {
			add("document %d: not passed to the next consumer (err=%v)", di, err)
			continue
		}
		// token by token
		n := len(wo.toks)
		if len(wg.toks) < n {
			n = len(wg.toks)
		}
		structural := false
		for i := 0; i < n; i++ {
			o, g := wo.toks[i], wg.toks[i]
			if o.Kind != g.Kind {
				add("document %d at %s: structure changed (expected %s, got %s)", di, o.Where, describeTok(o), describeTok(g))
				structural = true
				break
			}
			switch o.Kind {
			case 's':
				if o.Text != g.Text {
					add("document %d at %s: %s became %s (attributes/records added, dropped, reordered or a non-string value changed)", di, o.Where, o.Text, g.Text)
					structural = true
				}
			case 'k', 'v', 'y':
				if o.Optional && o.Targeted && o.Text == g.Text {
					continue // left alone, which is allowed here
				}
				if !o.Targeted {
					if o.Text != g.Text {
						add("document %d at %s: non-targeted %s %q was changed to %q", di, o.Where, kindName(o.Kind), o.Text, g.Text)
					}
					continue
				}
				counters["targeted_strings"]++
				if o.Text != g.Text {
					counters["replaced_strings"]++
				}
				rel := rstr
				if o.Kind == 'y' {
					rel = rbytes
				}
				if m := rel.add(kindName(o.Kind), o.Text, g.Text); m != "" {
					add("document %d at %s: %s", di, o.Where, m)
				}
			case 'n':
				if o.Text != g.Text {
					counters["replaced_nonattr_strings"]++
					if m := rstr.add("string", o.Text, g.Text); m != "" {
						add("document %d at %s: %s", di, o.Where, m)
					}
				}
			}
			if structural {
				break
			}
		}
		if !structural && len(wo.toks) != len(wg.toks) {
			add("document %d: %d tokens in, %d tokens out (structure changed)", di, len(wo.toks), len(wg.toks))
		}
	}
	return viol
}

func kindName(k byte) string {
	switch k {
	case 'k':
		return "attribute key"
	case 'v':
		return "string value"
	case 'y':
		return "bytes value"
	}
	return "string"
}

func describeTok(t Tok) string { return fmt.Sprintf("%s %q", kindName(t.Kind), t.Text) }

// ---- enumeration --------------------------------------------------------------------------

func cases(tier string) []Case {
	thorough := tier == "thorough"
	// the last mode leaves encrypt_all at its default (true) while a list is configured: the list wins
	modes := []Mode{{All: true}, {List: []string{"secret"}}, {List: []string{"secret", "missing"}}, {All: true, List: []string{"secret"}}}
	seeds := []int{0, 1, 2, 3}
	var out []Case
	shapes := []int{0, 3, 7}
	if thorough {
		shapes = []int{0, 1, 2, 3, 4, 5, 6, 7}
	}
	for _, m := range modes {
		for _, seed := range seeds {
			for _, sig := range []string{"traces", "logs", "metrics"} {
				// every attribute archetype alone in every position, then pairs
				for a := 0; a < NumAttrArch; a++ {
					for _, sh := range shapes {
						out = append(out, Case{Mode: m, Seed: seed, Docs: []Doc{{Sig: sig, Shape: sh, A: []int{a}}, {Sig: sig, Shape: (sh + 1) % 8, A: []int{a, (a + 1) % NumAttrArch}}, {Sig: sig, Shape: sh, A: []int{a}}}})
					}
					if seed <= 1 || thorough {
						for b := 0; b < NumAttrArch; b++ {
							out = append(out, Case{Mode: m, Seed: seed, Docs: []Doc{{Sig: sig, Shape: 3, A: []int{a, b}}, {Sig: sig, Shape: 7, A: []int{b, a, 12}}, {Sig: sig, Shape: 0, A: []int{b}}}})
						}
					}
				}
			}
			// request contexts that are done, or become done while the batch is processed
			if seed == 1 {
				for _, cx := range []int{1, 2, 6} {
					for _, sig := range []string{"traces", "logs", "metrics"} {
						for _, a := range []int{2, 3, 6, 7, 12} {
							out = append(out, Case{Mode: m, Seed: seed, Ctx: cx, Docs: []Doc{{Sig: sig, Shape: 3, A: []int{a, 4}}, {Sig: sig, Shape: 7, A: []int{a}}}})
						}
					}
				}
			}
			// one instance per signal each, three signals through the same factory config
			out = append(out, Case{Mode: m, Seed: seed, Docs: []Doc{{Sig: "traces", Shape: 7, A: []int{1, 2, 3, 4, 5, 6, 7, 8, 9, 10, 11}}, {Sig: "traces", Shape: 7, A: []int{11, 10, 9, 8, 7, 6, 5, 4, 3, 2, 1}}, {Sig: "traces", Shape: 7, A: []int{2, 2, 2}}}})
		}
	}
	// cipher parameters: every small number of rounds and a ladder of key lengths (the cipher
	// refuses its input for some of them; whatever the processor then does must still be
	// structure preserving and a deterministic injection), documents with several equal-length
	// keys and values
	for _, base := range []Mode{{All: true}, {List: []string{"secret"}}} {
		for _, rounds := range []int{-1, 0, 1, 2, 3, 10} {
			for _, kl := range []int{0, 1, 16, 128} {
				if rounds == 10 && kl == 128 {
					continue
				}
				m := base
				m.Rounds, m.KeyLength = ip(rounds), ip(kl)
				for _, sig := range []string{"traces", "logs", "metrics"} {
					out = append(out, Case{Mode: m, Seed: 1, Docs: []Doc{{Sig: sig, Shape: 7, A: []int{1, 2, 3, 4, 5, 6, 7, 8, 9, 10, 11}}, {Sig: sig, Shape: 3, A: []int{2, 12}}, {Sig: sig, Shape: 7, A: []int{11, 10, 9, 8, 7, 6, 5, 4, 3, 2, 1}}}})
				}
				out = append(out, Case{Mode: m, Seed: 1, Docs: []Doc{{Sig: "strings", Shape: 2}}})
			}
		}
	}
	// exhaustive string layer: all strings of <= 3 characters over a 5-character alphabet as values of one instance
	out = append(out, Case{Mode: Mode{All: true}, Seed: 1, Docs: []Doc{{Sig: "strings", Shape: 3}}})
	out = append(out, Case{Mode: Mode{All: true}, Seed: 0, Docs: []Doc{{Sig: "strings", Shape: 3}}})
	if thorough {
		out = append(out, Case{Mode: Mode{List: []string{"secret"}}, Seed: 2, Docs: []Doc{{Sig: "strings", Shape: 4}}})
	}
	return out
}

func allStrings(maxLen int) []string {
	alpha := []string{"a", "b", "é", "日", " "}
	out := []string{""}
	prev := []string{""}
	for l := 1; l <= maxLen; l++ {
		var cur []string
		for _, p := range prev {
			for _, a := range alpha {
				cur = append(cur, p+a)
			}
		}
		out = append(out, cur...)
		prev = cur
	}
	// every one-byte value (the cipher permutes them: a collision among the 256
	// substitutes is certain if any cipher-text byte is mistranslated); in the
	// thorough tier every two-byte value as well
	seen := map[string]bool{}
	for _, s := range out {
		seen[s] = true
	}
	for b := 0; b < 256; b++ {
		if s := string([]byte{byte(b)}); !seen[s] {
			out = append(out, s)
		}
	}
	if maxLen >= 4 {
		for a := 0; a < 256; a++ {
			for b := 0; b < 256; b++ {
				if s := string([]byte{byte(a), byte(b)}); !seen[s] {
					out = append(out, s)
				}
			}
		}
	}
	return out
}

func runStringCase(c Case, counters map[string]int) []string {
	// logs with one record per string, the string is the value of attribute "secret"
	d := c.Docs[0]
	ss := allStrings(d.Shape)
	rand.Reader = &seedReader{seed: byte(c.Seed), zeros: c.Seed == 0}
	f := obf.NewFactory()
	cfg := f.CreateDefaultConfig().(*obf.Config)
	cfg.EncryptAll = c.Mode.All
	cfg.EncryptAttributes = c.Mode.List
	c.Mode.apply(cfg)
	var got plog.Logs
	ln, _ := consumer.NewLogs(func(_ context.Context, ld plog.Logs) error { got = ld; return nil })
	lp, err := f.CreateLogs(context.Background(), settings(), cfg, ln)
	if err != nil {
		return []string{"cannot create processor: " + err.Error()}
	}
	build := func() plog.Logs {
		ld := plog.NewLogs()
		sl := ld.ResourceLogs().AppendEmpty().ScopeLogs().AppendEmpty()
		for _, s := range ss {
			lr := sl.LogRecords().AppendEmpty()
			lr.Attributes().PutStr("secret", s)
			lr.Attributes().PutEmptyBytes("k").FromRaw([]byte(s))
		}
		return ld
	}
	var viol []string
	pan := ""
	func() {
		defer func() {
			if r := recover(); r != nil {
				pan = fmt.Sprint(r)
			}
		}()
		err = lp.ConsumeLogs(context.Background(), build())
	}()
	if pan != "" || err != nil {
		return []string{fmt.Sprintf("string layer: panic=%q err=%v", pan, err)}
	}
	rel := newRel()
	relB := newRel()
	recs := got.ResourceLogs().At(0).ScopeLogs().At(0).LogRecords()
	if recs.Len() != len(ss) {
		return []string{fmt.Sprintf("string layer: %d records in, %d out", len(ss), recs.Len())}
	}
	for i, s := range ss {
		counters["strings_enumerated"]++
		var outv string
		n := 0
		recs.At(i).Attributes().Range(func(k string, v pcommon.Value) bool {
			if v.Type() == pcommon.ValueTypeStr {
				outv = v.Str()
				n++
			}
			if v.Type() == pcommon.ValueTypeBytes {
				ob := string(v.Bytes().AsRaw())
				if len(ob) != len(s) {
					viol = append(viol, fmt.Sprintf("string layer: bytes value %q replaced by %d bytes, want %d", s, len(ob), len(s)))
				} else if m := relB.add("bytes value", s, ob); m != "" {
					viol = append(viol, "string layer: "+m)
				}
			}
			return true
		})
		if n != 1 {
			viol = append(viol, fmt.Sprintf("string layer: record %d has %d string attributes, want 1", i, n))
			continue
		}
		if m := rel.add("string value", s, outv); m != "" {
			viol = append(viol, "string layer: "+m)
		}
	}
	return viol
}

var numRe = regexp.MustCompile(`\d+|"[^"]*"`)

func class(m string) string {
	m = numRe.ReplaceAllString(m, "#")
	if len(m) > 150 {
		m = m[:150]
	}
	return m
}

type knownFinding struct {
	Property string `json:"property"`
	Key      string `json:"key"`
	What     string `json:"what"`
	Status   string `json:"status"`
}

func main() {
	tier := flag.String("tier", "quick", "")
	_ = flag.Int("j", 16, "accepted for uniformity with the other engines (obfmc is single-process)")
	evidence := flag.String("evidence", "", "")
	replayDir := flag.String("replaydir", "replay", "")
	replay := flag.String("replay", "", "")
	knownPath := flag.String("known", "", "")
	racep := flag.Bool("racepass", false, "concurrent Consume calls on one instance (build with -race)")
	flag.Parse()
	if *racep {
		os.Exit(racePass())
	}
	start := time.Now()
	counters := map[string]int{}
	run := func(c Case) []string {
		if len(c.Docs) == 1 && c.Docs[0].Sig == "strings" {
			return runStringCase(c, counters)
		}
		return runCase(c, counters)
	}
	if *replay != "" {
		b, err := os.ReadFile(*replay)
		if err != nil {
			fmt.Println("HARNESS-ERROR:", err)
			os.Exit(2)
		}
		var a struct {
			Case Case `json:"case"`
		}
		if err := json.Unmarshal(b, &a); err != nil {
			fmt.Println("HARNESS-ERROR:", err)
			os.Exit(2)
		}
		v := run(a.Case)
		for _, m := range v {
			fmt.Println("C17:", m)
		}
		if len(v) > 0 {
			fmt.Printf("VIOLATION property=C17 replay=%s\n", *replay)
			os.Exit(1)
		}
		fmt.Println("replay: no violation of C17 on this tree")
		return
	}
	var known []knownFinding
	if b, err := os.ReadFile(*knownPath); err == nil {
		var f struct {
			Findings []knownFinding `json:"findings"`
		}
		json.Unmarshal(b, &f)
		known = f.Findings
	}
	cs := cases(*tier)
	// determinism: the first case twice
	a, b := run(cs[0]), run(cs[0])
	if strings.Join(a, "|") != strings.Join(b, "|") {
		fmt.Println("HARNESS-ERROR: the same case gave different verdicts twice")
		os.Exit(2)
	}
	classes := map[string]int{}
	shortest := map[string]Case{}
	shortestMsg := map[string]string{}
	docs := 0
	for _, c := range cs {
		docs += len(c.Docs)
		for _, m := range run(c) {
			k := class(m)
			classes[k]++
			if _, ok := shortest[k]; !ok {
				shortest[k] = c
				shortestMsg[k] = m
			}
		}
	}
	os.MkdirAll(*replayDir, 0o755)
	var ks []string
	for k := range classes {
		ks = append(ks, k)
	}
	sort.Strings(ks)
	nviol := 0
	var lines []string
	for _, k := range ks {
		full := shortest[k].String() + " | " + shortestMsg[k]
		isKnown := false
		for _, kf := range known {
			if kf.Property == "C17" && kf.Status != "fixed" && kf.Key != "" {
				if ok, _ := regexp.MatchString(kf.Key, full); ok {
					isKnown = true
					fmt.Printf("KNOWN-FINDING: property=C17 %s\n", kf.What)
				}
			}
		}
		if isKnown {
			continue
		}
		nviol += classes[k]
		h := sha256.Sum256([]byte(full))
		path := filepath.Join(*replayDir, "C17-"+hex.EncodeToString(h[:6])+".json")
		bb, _ := json.MarshalIndent(map[string]any{"engine": "obfmc", "property": "C17", "message": shortestMsg[k], "case": shortest[k]}, "", " ")
		os.WriteFile(path, bb, 0o644)
		abs, _ := filepath.Abs(path)
		fmt.Printf("  x%d %s\n     e.g. %s\n", classes[k], k, shortestMsg[k])
		lines = append(lines, fmt.Sprintf("VIOLATION property=C17 replay=%s", abs))
	}
	wall := time.Since(start).Seconds()
	if *evidence != "" {
		ev := map[string]any{"property_id": "C17", "tier": *tier, "seed": 0, "level": "model_checking", "wall_s": wall, "violations": nviol,
			"coverage": map[string]any{
				"states": len(cs), "transitions": docs, "traces_validated_against_impl": len(cs),
				"samples":           []any{cs[0], cs[len(cs)/2]},
				"race_pass": readRacePass(), "processor_instances": len(cs), "documents": docs, "counters": counters, "violation_classes": classes, "exhaustive": true,
				"explanation": "bounded-exhaustive enumeration of (mode, key seed, 3-document life of one processor instance) over attribute archetypes and container shapes, plus all strings of <= 3 characters over a 5-character alphabet; states = processor instances, transitions = documents consumed; each document is compared token by token with what the next consumer received",
			},
			"assumptions": []string{"crypto/rand.Reader is replaced by a seeded reader so the key is owned by the harness", "documents are drawn from the grammar of engines/obfmc/main.go (small-scope hypothesis)"}}
		bb, _ := json.MarshalIndent(ev, "", " ")
		os.MkdirAll(filepath.Dir(*evidence), 0o755)
		os.WriteFile(*evidence, bb, 0o644)
	}
	fmt.Printf("C17 %s: instances=%d documents=%d counters=%v classes=%d wall=%.1fs\n", *tier, len(cs), docs, counters, len(classes), wall)
	if nviol > 0 {
		for _, l := range lines {
			fmt.Println(l)
		}
		os.Exit(1)
	}
}

// racePass: several goroutines push documents through ONE processor instance
// at the same time (a collector processor is called concurrently); every
// output must equal the one obtained sequentially.  Built with -race by the
// check script: a dynamic detector on sampled schedules.
func racePass() int {
	rand.Reader = &seedReader{seed: 1}
	f := obf.NewFactory()
	bad := 0
	runs := 0
	for _, mode := range []Mode{{All: true}, {All: true, List: []string{"secret"}}} {
		cfg := f.CreateDefaultConfig().(*obf.Config)
		cfg.EncryptAll = mode.All
		cfg.EncryptAttributes = mode.List
		var mu sync.Mutex
		outs := map[string]map[string]bool{}
		tn, _ := consumer.NewTraces(func(_ context.Context, td ptrace.Traces) error {
			w := &walker{}
			w.traces(td)
			var sb strings.Builder
			for _, t := range w.toks {
				sb.WriteString(t.Text)
				sb.WriteByte(0)
			}
			key := td.ResourceSpans().At(0).SchemaUrl()
			mu.Lock()
			if outs[key] == nil {
				outs[key] = map[string]bool{}
			}
			outs[key][sb.String()] = true
			mu.Unlock()
			return nil
		})
		rand.Reader = &seedReader{seed: 1}
		tp, err := f.CreateTraces(context.Background(), settings(), cfg, tn)
		if err != nil {
			fmt.Println("HARNESS-ERROR:", err)
			return 2
		}
		docs := []Doc{{Sig: "traces", Shape: 7, A: []int{1, 2, 3, 6, 7, 8}}, {Sig: "traces", Shape: 3, A: []int{9, 10, 11}}, {Sig: "traces", Shape: 5, A: []int{8, 8, 2}}}
		var wg sync.WaitGroup
		for g := 0; g < 8; g++ {
			wg.Add(1)
			go func(g int) {
				defer wg.Done()
				for i := 0; i < 30; i++ {
					d := docs[(g+i)%len(docs)]
					td := buildTraces(d)
					td.ResourceSpans().At(0).SetSchemaUrl(fmt.Sprintf("doc-%d", (g+i)%len(docs)))
					_ = tp.ConsumeTraces(context.Background(), td)
				}
			}(g)
		}
		wg.Wait()
		runs += 240
		for k, set := range outs {
			if len(set) != 1 {
				fmt.Printf("C17: document %s obfuscated concurrently by one instance gave %d different outputs (substitutes must depend only on the original)\n", k, len(set))
				bad++
			}
		}
	}
	fmt.Printf("racepass: %d concurrent Consume calls on shared instances, %d documents with diverging outputs\n", runs, bad)
	if out := os.Getenv("RACEPASS_OUT"); out != "" {
		b, _ := json.Marshal(map[string]any{"concurrent_consume_calls": runs, "documents_with_diverging_outputs": bad})
		os.WriteFile(out, b, 0o644)
	}
	if bad > 0 {
		return 3
	}
	return 0
}

func readRacePass() any {
	if p := os.Getenv("RACEPASS_OUT"); p != "" {
		if b, err := os.ReadFile(p); err == nil {
			var m map[string]any
			json.Unmarshal(b, &m)
			m["note"] = "free-running -race build: 8 goroutines x 30 Consume calls on one instance per mode; outputs compared per document (dynamic detector, sampled schedules)"
			return m
		}
	}
	return nil
}
