// bpx: stateless model checking of the concurrent batch processor under the
// vs scheduler.  One process per (scenario, bound); the parent aggregates the
// workers' results into the evidence file of one property.
package main

import (
	"bufio"
	"crypto/sha256"
	"encoding/hex"
	"encoding/json"
	"flag"
	"fmt"
	"os"
	"os/exec"
	"path/filepath"
	"regexp"
	"runtime"
	"runtime/pprof"
	"sort"
	"strings"
	"sync"
	"time"

	"github.com/open-telemetry/otel-arrow/collector/processor/concurrentbatchprocessor/zzverif/vs"
)

type WorkerResult struct {
	Scenario   string
	Bound      int
	Stats      vs.Stats
	Outcomes   int
	Violations []WViolation
	WallS      float64
	Sample     []string // one traced execution
	SampleCh   []int
	PackSize   int
	PackDone   int
	OracleEvals map[string]int
}

type WViolation struct {
	Scenario string
	Property string
	Kind     string
	Msg      string
	Choices  []int
	Trace    []string
	Stable   bool
}

var propRe = regexp.MustCompile(`^(C\d+): `)

func splitProp(msg, dflt string) (string, string) {
	if m := propRe.FindStringSubmatch(msg); m != nil {
		return m[1], msg[len(m[0]):]
	}
	return dflt, msg
}

const maxSteps = 5000

func explorerFor(sc *Scenario, bound int) *vs.Explorer {
	return &vs.Explorer{
		Cfg:   vs.Config{FreeTimers: sc.FreeTimers, MaxFires: sc.MaxFires, NumCPU: sc.NumCPU, MaxSteps: maxSteps},
		Bound: bound,
		Prune: true,
		MaxStates: 12000000,
		New: func() *vs.Exec {
			w := newWorld(sc)
			return &vs.Exec{Main: w.Main, Check: w.Check, Invariant: w.Invariant, OnStuck: w.OnStuck}
		},
	}
}

// classify maps explorer-level failures to properties.  A deadlock in which a
// caller is stuck is both "Consume never returns" (C06) and a deadlock (C11).
func classify(v vs.Violation) ([]string, string) {
	switch v.Kind {
	case "stepcap":
		msg := fmt.Sprintf("livelock: the run does not terminate (still running after %d scheduling steps, 10x the cap); alive: %s", 10*maxSteps, v.Msg)
		if strings.Contains(v.Msg, "[caller-") {
			if keyedScenario {
				return []string{"C06", "C11", "C10"}, msg
			}
			return []string{"C06", "C11"}, msg
		}
		return []string{"C11"}, msg
	case "deadlock":
		if strings.Contains(v.Msg, "[caller-") {
			if keyedScenario {
				// with metadata keys a stuck caller is also "not refused with a permanent error"
				return []string{"C06", "C11", "C10"}, "deadlock: " + v.Msg
			}
			return []string{"C06", "C11"}, "deadlock: " + v.Msg
		}
		return []string{"C11"}, "deadlock: " + v.Msg
	case "panic":
		return []string{"C11"}, "panic in processor code: " + v.Msg
	case "invariant":
		p, m := splitProp(v.Msg, "C11")
		return []string{p}, m
	default:
		p, m := splitProp(v.Msg, "C05")
		return []string{p}, m
	}
}

func runWorker(sc *Scenario, bound int, budget time.Duration, noprune bool) *WorkerResult {
	if len(sc.Pack) == 0 {
		return runOne(sc, bound, time.Now(), budget, noprune)
	}
	start := time.Now()
	res := &WorkerResult{Scenario: sc.Name, Bound: bound}
	res.Stats.BoundDone = bound
	for i, sub := range sc.Pack {
		r := runOne(sub, bound, start, budget, noprune)
		st := &res.Stats
		st.Executions += r.Stats.Executions
		st.Complete += r.Stats.Complete
		st.Cut += r.Stats.Cut
		st.Steps += r.Stats.Steps
		st.ChoicePoints += r.Stats.ChoicePoints
		st.States += r.Stats.States
		st.StepCaps += r.Stats.StepCaps
		st.TimerFireRuns += r.Stats.TimerFireRuns
		if r.Stats.MaxPoints > st.MaxPoints {
			st.MaxPoints = r.Stats.MaxPoints
		}
		res.Outcomes += r.Outcomes
		res.Violations = append(res.Violations, r.Violations...)
		if i == 0 || i == len(sc.Pack)/2 {
			res.Sample = append(res.Sample, "== "+sub.Name)
			res.Sample = append(res.Sample, r.Sample...)
		}
		if r.Stats.BudgetHit {
			st.BudgetHit = true
			st.BoundDone = r.Stats.BoundDone
			res.PackDone = i
			break
		}
		res.PackDone = i + 1
		if countProp(res.Violations) > 40 || len(res.Violations) > 2000 {
			break
		}
	}
	res.PackSize = len(sc.Pack)
	res.WallS = time.Since(start).Seconds()
	return res
}

// workerProp is the property the parent is checking: only its violations
// count towards the early-stop cap (violations of other properties seen on the
// way are notes).
var workerProp string

func countProp(vs []WViolation) int {
	n := 0
	for _, v := range vs {
		if workerProp == "" || v.Property == workerProp {
			n++
		}
	}
	return n
}

var keyedScenario bool

// currentScenario is the (sub-)scenario being explored, for the runaway report.
var currentScenario string

type runawayReport struct {
	Scenario string `json:"scenario"`
	vs.Runaway
}

func runawayMsg(r vs.Runaway) string {
	return fmt.Sprintf("thread %s never reaches a synchronisation point again (unbounded loop in the processor, stopped after %.0f CPU-seconds of spinning or 12 GB of allocation) after a schedule of %d choices; callers never get a response and shutdown cannot complete", r.Thread, vs.RunawayCPUSeconds, len(r.Choices))
}

func runOne(sc *Scenario, bound int, start time.Time, budget time.Duration, noprune bool) *WorkerResult {
	res := &WorkerResult{Scenario: sc.Name, Bound: bound}
	keyedScenario = len(sc.Keys) > 0 && sc.Limit > 0
	currentScenario = sc.Name
	var last *vs.Explorer
	seen := map[string]bool{}
	for b := 0; b <= bound; b++ {
		ex := explorerFor(sc, b)
		ex.Prune = !noprune
		if budget > 0 {
			ex.Deadline = start.Add(budget)
		}
		viols := ex.Explore()
		last = ex
		for _, v := range viols {
			if v.Kind == "stepcap" {
				// a livelock only if the same schedule is still running at 10x the cap
				ex10 := explorerFor(sc, b)
				ex10.Cfg.MaxSteps = 10 * maxSteps
				if out, _ := ex10.Replay(v.Choices); !out.StepCap {
					continue
				}
			}
			props, msg := classify(v)
			key := props[0] + "|" + msg
			if seen[key] {
				continue
			}
			seen[key] = true
			// confirm: replay the schedule three times, identical verdicts required
			stable := true
			var trace []string
			for i := 0; i < 3; i++ {
				out, ov := ex.Replay(v.Choices)
				var got []string
				switch {
				case out.StepCap:
					got = append([]string{"stepcap"}, ov...)
				case out.Deadlock != "":
					got = append([]string{"deadlock: " + out.Deadlock}, ov...)
				case out.Panic != "":
					got = []string{"panic"}
				case out.InvFail != "":
					got = []string{out.InvFail}
				default:
					got = ov
				}
				found := false
				for _, g := range got {
					_, m := splitProp(g, "")
					if m == msg || g == msg || strings.HasPrefix(msg, g) || (v.Kind == "panic" && g == "panic") || (v.Kind == "stepcap" && g == "stepcap") || strings.HasSuffix(msg, g) {
						found = true
					}
				}
				if !found {
					stable = false
				}
				trace = out.Trace
				if len(trace) > 300 {
					trace = append(append(append([]string{}, trace[:150]...), "..."), trace[len(trace)-150:]...)
				}
			}
			for _, prop := range props {
				res.Violations = append(res.Violations, WViolation{Scenario: sc.Name, Property: prop, Kind: v.Kind, Msg: msg, Choices: v.Choices, Trace: trace, Stable: stable})
			}
		}
		if ex.Stats.BudgetHit {
			break
		}
		if countProp(res.Violations) > 40 || len(res.Violations) > 400 {
			break
		}
	}
	res.Stats = last.Stats
	if last.Stats.BudgetHit {
		res.Stats.BoundDone = last.Bound - 1
	}
	res.Outcomes = len(last.Stats.Outcomes)
	res.Stats.Outcomes = nil
	// sample execution: the default schedule, traced
	out, _ := last.Replay(nil)
	res.Sample = out.Trace
	if len(res.Sample) > 60 {
		res.Sample = append(res.Sample[:60], "...")
	}
	res.WallS = time.Since(start).Seconds()
	return res
}

type propSpec struct {
	scenarios *regexp.Regexp
	text      string
}

// which scenarios serve which property (DESIGN.md appendix B)
var propScenarios = map[string]*regexp.Regexp{
	"C05": regexp.MustCompile(`^(D1|D2|D3|D4|D5|D6|SPLIT|SEQ|MS|FX)`),
	"C06": regexp.MustCompile(`^(D1|D2|D3|D6|D7|SEQ|MS|FX)`),
	"C09": regexp.MustCompile(`^(D2|D4|D6|T9|SPLIT|SEQ|FX)`),
	"C10": regexp.MustCompile(`^(D8|FX)`),
	"C11": regexp.MustCompile(`^(D1|D2|D3|D5|D6|D7|D8|K2|FX)`),
	"C18": regexp.MustCompile(`^(D9|D7|FX)`),
}

func main() {
	prop := flag.String("prop", "", "property id")
	tier := flag.String("tier", "quick", "quick|thorough")
	worker := flag.Bool("worker", false, "run one scenario (internal)")
	scName := flag.String("scenario", "", "scenario name (worker / replay / filter regexp in parent mode)")
	bound := flag.Int("bound", -1, "preemption bound")
	budget := flag.Duration("budget", 0, "time budget per scenario")
	evidence := flag.String("evidence", "", "evidence file to write")
	replayDir := flag.String("replaydir", "replay", "directory for replay artefacts")
	replay := flag.String("replay", "", "replay artefact to re-execute")
	list := flag.Bool("list", false, "list scenarios")
	noprune := flag.Bool("noprune", false, "disable fingerprint pruning")
	jobs := flag.Int("j", 16, "parallel workers")
	known := flag.String("known", "", "known findings file")
	cpuprof := flag.String("cpuprofile", "", "write cpu profile (worker)")
	racep := flag.Bool("racepass", false, "free-running pass (build with -race)")
	flag.Parse()
	if *racep {
		os.Exit(racePass(*tier))
	}
	if os.Getenv("BPX_MEMSTATS") == "2" {
		go func() {
			for {
				time.Sleep(200 * time.Millisecond)
				var ms runtime.MemStats
				runtime.ReadMemStats(&ms)
				thr := uint64(1 << 30)
				if os.Getenv("BPX_MEMSTATS_GB") != "" {
					fmt.Sscan(os.Getenv("BPX_MEMSTATS_GB"), &thr)
					thr <<= 30
				}
				if ms.HeapInuse > thr {
					f, _ := os.Create("/tmp/heap.prof")
					pprof.WriteHeapProfile(f)
					f.Close()
					fmt.Fprintln(os.Stderr, "heap profile written")
					os.Exit(3)
				}
			}
		}()
	}
	if *cpuprof != "" {
		f, _ := os.Create(*cpuprof)
		pprof.StartCPUProfile(f)
		defer pprof.StopCPUProfile()
	}

	scs := allScenarios(*tier)
	byName := map[string]*Scenario{}
	for _, s := range scs {
		byName[s.Name] = s
	}
	for _, s := range scs {
		for _, sub := range s.Pack {
			if byName[sub.Name] == nil {
				byName[sub.Name] = sub
			}
		}
	}
	if *list {
		for _, s := range scs {
			fmt.Println(s.Name)
			if os.Getenv("BPX_LIST_SUBS") != "" {
				for _, sub := range s.Pack {
					fmt.Println("  " + sub.Name)
				}
			}
		}
		return
	}
	if *replay != "" {
		os.Exit(doReplay(*replay))
	}
	if *worker {
		sc := byName[*scName]
		if sc == nil {
			fmt.Fprintf(os.Stderr, "HARNESS-ERROR: unknown scenario %q\n", *scName)
			os.Exit(2)
		}
		workerProp = *prop
		vs.OnRunaway = func(r vs.Runaway) {
			b, _ := json.Marshal(runawayReport{Scenario: currentScenario, Runaway: r})
			fmt.Println("RUNAWAY " + string(b))
			os.Exit(3)
		}
		r := runWorker(sc, *bound, *budget, *noprune)
		r.OracleEvals = oracleEvals
		b, _ := json.Marshal(r)
		fmt.Println("RESULT " + string(b))
		if os.Getenv("BPX_MEMSTATS") != "" {
			var ms runtime.MemStats
			runtime.ReadMemStats(&ms)
			fmt.Fprintf(os.Stderr, "MEM heapInuse=%dMB heapSys=%dMB stackInuse=%dMB sys=%dMB goroutines=%d numGC=%d\n", ms.HeapInuse>>20, ms.HeapSys>>20, ms.StackInuse>>20, ms.Sys>>20, runtime.NumGoroutine(), ms.NumGC)
			f, _ := os.Create("/tmp/heap.prof")
			pprof.WriteHeapProfile(f)
			f.Close()
		}
		pprof.StopCPUProfile()
		return
	}
	os.Exit(parent(*prop, *tier, *scName, *bound, *budget, *evidence, *replayDir, *jobs, *known, scs))
}

func defaultBound(tier string, sc *Scenario) int {
	if sc.ZeroBound {
		return 0
	}
	if tier == "thorough" {
		if sc.TB > 0 {
			return sc.TB
		}
		if sc.Bound > 0 {
			return sc.Bound
		}
		return 3
	}
	if sc.QZero {
		return 0
	}
	if sc.QB > 0 {
		return sc.QB
	}
	if sc.Bound > 0 {
		return sc.Bound
	}
	return 2
}

type Artefact struct {
	Engine   string   `json:"engine"`
	Property string   `json:"property"`
	Scenario string   `json:"scenario"`
	Tier     string   `json:"tier"`
	Kind     string   `json:"kind"`
	Message  string   `json:"message"`
	Choices  []int    `json:"choices"`
	Trace    []string `json:"trace"`
}

func doReplay(path string) int {
	b, err := os.ReadFile(path)
	if err != nil {
		fmt.Fprintln(os.Stderr, "HARNESS-ERROR:", err)
		return 2
	}
	var a Artefact
	if err := json.Unmarshal(b, &a); err != nil {
		fmt.Fprintln(os.Stderr, "HARNESS-ERROR:", err)
		return 2
	}
	if a.Tier == "" {
		a.Tier = "quick"
	}
	var sc *Scenario
	for _, s := range allScenarios(a.Tier) {
		if s.Name == a.Scenario {
			sc = s
		}
		for _, sub := range s.Pack {
			if sub.Name == a.Scenario {
				sc = sub
			}
		}
	}
	if sc == nil {
		fmt.Fprintf(os.Stderr, "HARNESS-ERROR: unknown scenario %q\n", a.Scenario)
		return 2
	}
	ex := explorerFor(sc, 99)
	if a.Kind == "stepcap" {
		ex.Cfg.MaxSteps = 10 * maxSteps
	}
	vs.OnRunaway = func(r vs.Runaway) {
		fmt.Println(runawayMsg(r))
		fmt.Printf("VIOLATION property=%s replay=%s\n", a.Property, path)
		os.Exit(1)
	}
	out, ov := ex.Replay(a.Choices)
	if len(out.Trace) > 400 {
		out.Trace = append(out.Trace[:400], "...")
	}
	for _, l := range out.Trace {
		fmt.Println("  ", l)
	}
	bad := false
	if out.StepCap {
		fmt.Printf("livelock: still running after %d scheduling steps; alive: %s\n", ex.Cfg.MaxSteps, out.StepCapMsg)
		bad = true
	}
	if out.Deadlock != "" {
		fmt.Println("deadlock:", out.Deadlock)
		bad = true
	}
	if out.Panic != "" {
		fmt.Println("panic:", out.Panic)
		bad = true
	}
	if out.InvFail != "" {
		fmt.Println("invariant:", out.InvFail)
		bad = true
	}
	for _, m := range ov {
		fmt.Println("oracle:", m)
		bad = true
	}
	if bad {
		fmt.Printf("VIOLATION property=%s replay=%s\n", a.Property, path)
		return 1
	}
	fmt.Println("replay: no violation on this tree")
	return 0
}

type knownFinding struct {
	Property string `json:"property"`
	Key      string `json:"key"`
	What     string `json:"what"`
	Status   string `json:"status"`
}

func loadKnown(path string) []knownFinding {
	if path == "" {
		return nil
	}
	b, err := os.ReadFile(path)
	if err != nil {
		return nil
	}
	var f struct {
		Findings []knownFinding `json:"findings"`
	}
	if err := json.Unmarshal(b, &f); err != nil {
		fmt.Fprintln(os.Stderr, "HARNESS-ERROR: known findings:", err)
		os.Exit(2)
	}
	return f.Findings
}

func parent(prop, tier, filter string, boundOverride int, budget time.Duration, evidence, replayDir string, jobs int, knownPath string, scs []*Scenario) int {
	start := time.Now()
	re := propScenarios[prop]
	if re == nil {
		fmt.Fprintf(os.Stderr, "HARNESS-ERROR: property %q is not served by bpx\n", prop)
		return 2
	}
	var filt *regexp.Regexp
	if filter != "" {
		filt = regexp.MustCompile(filter)
	}
	var todo []*Scenario
	for _, s := range scs {
		if re.MatchString(s.Name) && (filt == nil || filt.MatchString(s.Name)) {
			todo = append(todo, s)
		}
	}
	if len(todo) == 0 {
		fmt.Fprintln(os.Stderr, "HARNESS-ERROR: no scenario selected")
		return 2
	}
	if budget == 0 {
		budget = 240 * time.Second
		if tier == "thorough" {
			budget = 10 * time.Minute
		}
	}
	self, _ := os.Executable()
	results := make([]*WorkerResult, len(todo))
	var wg sync.WaitGroup
	sem := make(chan struct{}, jobs)
	var mu sync.Mutex
	harnessErr := false
	for i, sc := range todo {
		wg.Add(1)
		go func(i int, sc *Scenario) {
			defer wg.Done()
			sem <- struct{}{}
			defer func() { <-sem }()
			b := defaultBound(tier, sc)
			if boundOverride >= 0 {
				b = boundOverride
			}
			cmd := exec.Command(self, "-worker", "-prop", prop, "-tier", tier, "-scenario", sc.Name, "-bound", fmt.Sprint(b), "-budget", budget.String())
			cmd.Env = append(os.Environ(), "GOMAXPROCS=1", "GOGC=400")
			cmd.Stderr = os.Stderr
			outp, err := cmd.Output()
			var r *WorkerResult
			sc2 := bufio.NewScanner(strings.NewReader(string(outp)))
			sc2.Buffer(make([]byte, 1<<20), 1<<28)
			for sc2.Scan() {
				if strings.HasPrefix(sc2.Text(), "RESULT ") {
					r = &WorkerResult{}
					if e := json.Unmarshal([]byte(sc2.Text()[7:]), r); e != nil {
						r = nil
					}
				}
			}
			if ee, ok := err.(*exec.ExitError); ok && ee.ExitCode() == 3 {
				// the product code spins without reaching a scheduling point: no verdict
				// on any execution of this scenario is possible any more
				for _, l := range strings.Split(string(outp), "\n") {
					if strings.HasPrefix(l, "RUNAWAY ") {
						var rr runawayReport
						if json.Unmarshal([]byte(l[8:]), &rr) == nil {
							r = &WorkerResult{Scenario: sc.Name, Bound: b}
							r.Stats.BudgetHit = true
							r.Violations = []WViolation{{Scenario: rr.Scenario, Property: prop, Kind: "runaway", Msg: runawayMsg(rr.Runaway), Choices: rr.Choices, Stable: true}}
							err = nil
						}
					}
				}
			}
			if err != nil || r == nil {
				mu.Lock()
				harnessErr = true
				fmt.Fprintf(os.Stderr, "HARNESS-ERROR: worker for %s failed: %v\n", sc.Name, err)
				mu.Unlock()
				return
			}
			results[i] = r
		}(i, sc)
	}
	wg.Wait()
	if harnessErr {
		return 2
	}
	known := loadKnown(knownPath)
	// aggregate
	var execs, complete, cut, states, maxPoints, outcomes, stepcaps int
	var steps int64
	exhaustive := true
	boundDone := 99
	var samples []any
	var perScenario []map[string]any
	byBound := map[string]int{}
	var violLines []string
	var knownLines []string
	notes := map[string]int{}
	os.MkdirAll(replayDir, 0o755)
	nviol := 0
	evals := map[string]int{}
	for _, r := range results {
		for k, v := range r.OracleEvals {
			evals[k] += v
		}
		execs += r.Stats.Executions
		complete += r.Stats.Complete
		cut += r.Stats.Cut
		states += r.Stats.States
		steps += r.Stats.Steps
		outcomes += r.Outcomes
		stepcaps += r.Stats.StepCaps
		if r.Stats.MaxPoints > maxPoints {
			maxPoints = r.Stats.MaxPoints
		}
		if r.Stats.BudgetHit {
			exhaustive = false
		}
		if r.Stats.BoundDone < boundDone && !(r.PackSize > 0 && r.Bound == 0) {
			// sequential layers (one caller, bound 0 by construction) do not count
			boundDone = r.Stats.BoundDone
		}
		byBound[fmt.Sprint(r.Stats.BoundDone)]++
		perScenario = append(perScenario, map[string]any{"scenario": r.Scenario, "bound": r.Bound, "executions": r.Stats.Executions,
			"complete": r.Stats.Complete, "pruned": r.Stats.Cut, "states": r.Stats.States, "steps": r.Stats.Steps, "distinct_outcomes": r.Outcomes,
			"budget_hit": r.Stats.BudgetHit, "wall_s": r.WallS, "runs_with_timer_fire": r.Stats.TimerFireRuns,
			"pack_members": r.PackSize, "pack_members_done": r.PackDone})
		if len(samples) < 3 && len(r.Sample) > 0 {
			samples = append(samples, map[string]any{"scenario": r.Scenario, "default_schedule_trace": r.Sample})
		}
		for _, v := range r.Violations {
			if !v.Stable {
				fmt.Fprintf(os.Stderr, "HARNESS-ERROR: violation in %s did not reproduce on replay: %s\n", r.Scenario, v.Msg)
				return 2
			}
			if v.Property != prop {
				notes[v.Property]++
				continue
			}
			if v.Scenario == "" {
				v.Scenario = r.Scenario
			}
			h := sha256.Sum256([]byte(v.Scenario + "|" + v.Msg))
			name := fmt.Sprintf("%s-%s.json", prop, hex.EncodeToString(h[:6]))
			path := filepath.Join(replayDir, name)
			a := Artefact{Engine: "bpx", Property: prop, Tier: tier, Scenario: v.Scenario, Kind: v.Kind, Message: v.Msg, Choices: v.Choices, Trace: v.Trace}
			b, _ := json.MarshalIndent(a, "", " ")
			os.WriteFile(path, b, 0o644)
			if v.Kind == "runaway" {
				// confirm in a fresh process: the same schedule must spin again
				c := exec.Command(self, "-replay", path)
				c.Env = append(os.Environ(), "GOMAXPROCS=1")
				if e, ok := c.Run().(*exec.ExitError); !ok || e.ExitCode() != 1 {
					fmt.Fprintf(os.Stderr, "HARNESS-ERROR: runaway in %s did not reproduce on replay\n", v.Scenario)
					return 2
				}
			}
			isKnown := false
			for _, k := range known {
				if k.Property == prop && k.Status != "fixed" && k.Key != "" && strings.Contains(v.Scenario+"|"+v.Msg, k.Key) {
					isKnown = true
					knownLines = append(knownLines, fmt.Sprintf("KNOWN-FINDING: property=%s %s", prop, k.What))
				}
			}
			if isKnown {
				continue
			}
			nviol++
			if len(violLines) < 10 {
				abs, _ := filepath.Abs(path)
				violLines = append(violLines, fmt.Sprintf("VIOLATION property=%s replay=%s", prop, abs))
				fmt.Printf("  [%s] %s: %s\n", v.Scenario, v.Kind, firstLine(v.Msg))
			}
		}
	}
	sort.Strings(knownLines)
	knownLines = uniq(knownLines)
	for _, l := range knownLines {
		fmt.Println(l)
	}
	for p, n := range notes {
		fmt.Printf("note: %d violation(s) of %s seen in these runs (reported by that property's own check)\n", n, p)
	}
	wall := time.Since(start).Seconds()
	if evidence != "" {
		ev := map[string]any{
			"property_id": prop, "tier": tier, "seed": 0, "level": "model_checking", "wall_s": wall, "violations": nviol,
			"coverage": map[string]any{
				"states":                        max1(states),
				"transitions":                   steps,
				"traces_validated_against_impl": execs,
				"samples":                       samples,
				"executions":                    execs,
				"complete_executions":           complete,
				"executions_pruned_as_already_expanded_state": cut,
				"distinct_outcomes":             outcomes,
				"max_choice_points":             maxPoints,
				"preemption_bound_completed":    boundDone,
				"preemption_bound_note":         "minimum over the concurrent scenarios of the bound each one completed (sequential packs excluded); scenarios_by_bound_completed gives the distribution",
				"scenarios_by_bound_completed":  byBound,
				"scenarios":                     perScenario,
				"step_caps_hit":                 stepcaps,
				"exhaustive":                    exhaustive && stepcaps == 0,
				"race_pass":                     readRacePass(),
				"oracle_evaluations":            evals,
				"explanation":                   "stateless model checking of the real batch processor (sources rewritten syntactically onto the vs scheduler); states = distinct Mazurkiewicz-trace fingerprints at choice points, transitions = scheduler steps, traces_validated_against_impl = executions of the implementation (there is no separate model)",
			},
			"assumptions": []string{
				"scheduling points are the channel/sync/timer/context operations of the rewritten package; plain memory accesses are assumed race free (separate -race pass)",
				"Shutdown is called only after every caller has enqueued its request or returned (collector shutdown order)",
				"third-party libraries (pdata, otel SDK, zap) run natively and contain no blocking operation",
			},
		}
		b, _ := json.MarshalIndent(ev, "", " ")
		os.MkdirAll(filepath.Dir(evidence), 0o755)
		os.WriteFile(evidence, b, 0o644)
	}
	fmt.Printf("%s %s: scenarios=%d executions=%d complete=%d pruned=%d states=%d steps=%d outcomes=%d bound_completed=%d exhaustive=%v wall=%.1fs\n",
		prop, tier, len(todo), execs, complete, cut, states, steps, outcomes, boundDone, exhaustive, wall)
	if nviol > 0 {
		for _, l := range violLines {
			fmt.Println(l)
		}
		return 1
	}
	return 0
}

func max1(n int) int {
	if n < 1 {
		return 1
	}
	return n
}

func firstLine(s string) string {
	if i := strings.IndexByte(s, '\n'); i >= 0 {
		return s[:i]
	}
	return s
}

func uniq(in []string) []string {
	var out []string
	for i, s := range in {
		if i == 0 || s != in[i-1] {
			out = append(out, s)
		}
	}
	return out
}

func readRacePass() any {
	if p := os.Getenv("RACEPASS_OUT"); p != "" {
		if b, err := os.ReadFile(p); err == nil {
			var m map[string]any
			json.Unmarshal(b, &m)
			m["note"] = "free-running -race build of the same processor configurations and request shapes (dynamic detector, sampled schedules); decides only the data-race clause of C11"
			return m
		}
	}
	return nil
}
