package main

import (
	"context"
	"errors"
	"fmt"
	"hash/fnv"
	"sort"
	"strings"

	"go.opentelemetry.io/collector/consumer/consumererror"

	"github.com/open-telemetry/otel-arrow/collector/processor/concurrentbatchprocessor/zzverif/vs"
	"github.com/open-telemetry/otel-arrow/collector/processor/concurrentbatchprocessor/zzverif/vs/vcontext"
)

// oracleEvals counts how often each oracle was actually evaluated (not how
// often it fired): a vacuity guard reported in the evidence.
var oracleEvals = map[string]int{}

func isCtxErr(err error) bool {
	return errors.Is(err, context.Canceled) || errors.Is(err, context.DeadlineExceeded)
}

// deliveries returns, per item id, the exports that carried it.
func (w *World) deliveries() map[string][]*Export {
	d := map[string][]*Export{}
	for _, e := range w.exports {
		for _, it := range e.Items {
			d[it.ID] = append(d[it.ID], e)
		}
	}
	return d
}

// atReturn runs on the caller thread right after Consume returned (C06).
func (w *World) atReturn(c *CallerState, rs *ReqState) {
	sc := w.sc
	oracleEvals["C06_return_judged"]++
	err := rs.Err
	if err != nil && consumererror.IsPermanent(err) && !errors.Is(err, errSink) && !isCtxErr(err) {
		// refused (cardinality limit): judged by C10 at the end
		return
	}
	if sc.Early {
		if err != nil && !isCtxErr(err) {
			w.violate("C06", "early_return: caller %s request returned %v, want nil", c.Spec.Label, err)
		}
		if isCtxErr(err) && rs.CtxErrAtReturn == nil {
			w.violate("C06", "early_return: caller %s got context error %v but its own context is not done", c.Spec.Label, err)
		}
		return
	}
	if isCtxErr(err) && rs.CtxErrAtReturn != nil {
		return // the caller's own context ended: judged by the at-most-once rule at the end
	}
	// no context error: every item must have been through a completed export
	d := w.deliveries()
	anyFail := false
	for _, id := range rs.IDs {
		es := d[id]
		if len(es) == 0 {
			w.violate("C06", "caller %s returned (err=%v) before item %s was exported", c.Spec.Label, err, id)
			continue
		}
		for _, e := range es {
			if !e.Done {
				w.violate("C06", "caller %s returned (err=%v) while the export #%d carrying item %s had not returned", c.Spec.Label, err, e.Seq, id)
			} else if e.Err != nil {
				anyFail = true
			}
		}
	}
	if err == nil && anyFail {
		w.violate("C06", "caller %s returned nil although an export carrying its items failed", c.Spec.Label)
	}
	if err != nil && !anyFail {
		w.violate("C06", "caller %s returned %v although every export carrying its items succeeded", c.Spec.Label, err)
	}
	if err != nil && anyFail {
		// must wrap the export failure (errSink or the context error the sink returned)
		ok := errors.Is(err, errSink)
		if !ok {
			for _, id := range rs.IDs {
				for _, e := range d[id] {
					if e.Err != nil && errors.Is(err, e.Err) {
						ok = true
					}
				}
			}
		}
		if !ok {
			w.violate("C06", "caller %s returned %v which does not wrap the export failure", c.Spec.Label, err)
		}
	}
}

// atShutdownReturn runs on the shutdown thread right after Shutdown returned.
func (w *World) atShutdownReturn() {
	s := vs.Cur()
	oracleEvals["C11_shutdown_return_judged"]++
	for _, e := range w.exports {
		if !e.Done {
			w.violate("C11", "Shutdown returned while export #%d was still in flight", e.Seq)
		}
	}
	for _, t := range s.Threads() {
		if t.Label == "" && !t.Done() {
			w.violate("C11", "Shutdown returned while processor goroutine %s was still alive (%s)", t.Path, describeThread(t))
		}
	}
	d := w.deliveries()
	for _, c := range w.callers {
		for _, rs := range c.Reqs {
			if !rs.Started {
				continue
			}
			sent := rs.Sent || (rs.Started && !rs.Returned && c.Thread.Sends > c.sendsBase)
			if !sent {
				continue
			}
			for _, id := range rs.IDs {
				if len(d[id]) == 0 {
					w.violate("C11", "Shutdown returned but item %s (enqueued before Shutdown was called) was never exported", id)
				}
			}
		}
	}
}

func describeThread(t *vs.Thread) string {
	if r := t.Pending(); r != nil {
		return r.Kind.String() + " " + r.Note
	}
	return "running"
}

// Invariant is evaluated at every scheduling step (all workers parked).
func (w *World) Invariant(s *vs.Sched) string {
	// C06 "promptly": a caller whose context is done is never left parked on
	// an operation that is not enabled (other than an admission lock).
	for _, c := range w.callers {
		if c.Thread == nil || c.Thread.Done() || c.Ctx == nil {
			continue
		}
		if vcontext.PeekErr(c.Ctx) == nil {
			continue
		}
		oracleEvals["C06_cancelled_caller_states_judged"]++
		r := c.Thread.Pending()
		if r != nil && r.Kind == vs.OpLock && r.Holder != nil && !s.IsEnabled(c.Thread) {
			// an admission lock is fine as long as its holder is on its way to release
			// it; a holder that is itself parked on a wait (not another lock) keeps
			// the cancelled caller for as long as that wait lasts
			if h := r.Holder(); h != nil && !h.Done() && h != c.Thread {
				if hr := h.Pending(); hr != nil && hr.Kind != vs.OpLock && hr.Kind != vs.OpUnlock && !s.IsEnabled(h) {
					return fmt.Sprintf("C06: caller %s is blocked on a lock although its context is done, and the lock's holder is itself waiting (%s)", c.Spec.Label, hr.Kind)
				}
			}
		}
		if r == nil || r.Kind == vs.OpLock || r.Kind == vs.OpStart || r.Kind == vs.OpSleep {
			continue
		}
		if !s.IsEnabled(c.Thread) {
			return fmt.Sprintf("C06: caller %s is blocked on %s although its context is done", c.Spec.Label, r.Kind)
		}
	}
	return ""
}

// OnStuck judges the final state of a deadlocked or livelocked execution for
// C05: nothing further can happen, so an item of a request that was accepted
// (Consume returned nil) and has not reached the next consumer is lost.
func (w *World) OnStuck(out *vs.Outcome) []string {
	d := w.deliveries()
	lost, accepted := 0, 0
	var first string
	for _, c := range w.callers {
		for _, rs := range c.Reqs {
			if !rs.Returned || rs.Err != nil {
				continue
			}
			for _, id := range rs.IDs {
				accepted++
				if len(d[id]) == 0 {
					lost++
					if first == "" {
						first = id
					}
				}
			}
		}
	}
	oracleEvals["C05_stuck_states_judged"]++
	var viol []string
	if lost > 0 {
		viol = append(viol, fmt.Sprintf("C05: the processor is stuck for good and %d of %d items of accepted requests (Consume returned nil) were never passed on, e.g. %s", lost, accepted, first))
	}
	// C09: items sit in the processor for good while no export call is in flight: whatever
	// keeps them there, it is not the concurrency limit holding exports back
	{
		inflight := 0
		for _, e := range w.exports {
			if !e.Done {
				inflight++
			}
		}
		held := 0
		for _, c := range w.callers {
			for _, rs := range c.Reqs {
				if !(rs.Sent || (rs.Started && !rs.Returned && c.Thread != nil && c.Thread.Sends > c.sendsBase)) {
					continue
				}
				for _, id := range rs.IDs {
					if len(d[id]) == 0 {
						held++
					}
				}
			}
		}
		oracleEvals["C09_stuck_states_judged"]++
		if held > 0 && inflight == 0 {
			viol = append(viol, fmt.Sprintf("C09: the processor is stuck for good with %d accepted item(s) never exported while no export call is in flight (no deadline can be met)", held))
		}
	}
	// C18: one caller's context ended, and items submitted under a different, live
	// context will never be exported (skipped)
	var ended *CallerState
	for _, c := range w.callers {
		if c.Ctx != nil && vcontext.PeekErr(c.Ctx) != nil {
			ended = c
		}
	}
	if ended != nil {
		for _, c := range w.callers {
			if c.Ctx == ended.Ctx || (c.Ctx != nil && vcontext.PeekErr(c.Ctx) != nil) {
				continue
			}
			skipped := 0
			for _, rs := range c.Reqs {
				if !rs.Started {
					continue
				}
				if rs.Err != nil && consumererror.IsPermanent(rs.Err) && !errors.Is(rs.Err, errSink) {
					continue // refused by the cardinality limit
				}
				for _, id := range rs.IDs {
					if len(d[id]) == 0 {
						skipped++
					}
				}
			}
			if skipped > 0 {
				oracleEvals["C18_stuck_states_judged"]++
				viol = append(viol, fmt.Sprintf("C18: after the context of caller %s ended the processor is stuck for good and %d items submitted by caller %s (context live) are never exported", ended.Spec.Label, skipped, c.Spec.Label))
				break
			}
		}
	}
	return viol
}

// Check is the end-of-execution oracle.
func (w *World) Check(out *vs.Outcome) ([]string, uint64) {
	sc := w.sc
	s := w // alias
	_ = s
	d := w.deliveries()
	// ---- C05: exactly once, content and container identity intact ----------
	expected := map[string]ItemObs{}
	owner := map[string]*CallerState{}
	for _, c := range w.callers {
		for _, rs := range c.Reqs {
			for id, o := range rs.Expected {
				expected[id] = o
				owner[id] = c
			}
			if !rs.Started {
				continue
			}
			refused := rs.Err != nil && consumererror.IsPermanent(rs.Err) && !errors.Is(rs.Err, errSink)
			for _, id := range rs.IDs {
				n := len(d[id])
				switch {
				case refused:
					if n != 0 {
						w.violate("C10", "item %s of a refused request (err=%v) was exported %d times", id, rs.Err, n)
					}
				case rs.Returned && isCtxErr(rs.Err) && rs.CtxErrAtReturn != nil:
					if n > 1 {
						w.violate("C06", "item %s of a cancelled request was exported %d times", id, n)
					}
					if !rs.Sent && n != 0 {
						w.violate("C05", "item %s of a request that was never enqueued (err=%v) was exported", id, rs.Err)
					}
				default:
					if n != 1 {
						w.violate("C05", "item %s of an accepted request (caller %s, result %v) was exported %d times, want exactly once", id, c.Spec.Label, rs.Err, n)
					}
				}
			}
		}
	}
	for _, e := range w.exports {
		oracleEvals["C05_C09_C10_exports_judged"]++
		if len(e.Items) == 0 {
			w.violate("C09", "export #%d is empty", e.Seq)
		}
		if sc.M > 0 && len(e.Items) > int(sc.M) {
			w.violate("C09", "export #%d holds %d items > send_batch_max_size=%d", e.Seq, len(e.Items), sc.M)
		}
		combos := map[string]bool{}
		for _, it := range e.Items {
			x, ok := expected[it.ID]
			if !ok {
				w.violate("C05", "export #%d carries item %q that no request contained", e.Seq, it.ID)
				continue
			}
			if x.Content != it.Content {
				w.violate("C05", "item %s content changed", it.ID)
			}
			if x.Container != it.Container {
				w.violate("C05", "item %s arrived under a different resource/scope/metric identity:\n  got  %s\n  want %s", it.ID, it.Container, x.Container)
			}
			if len(sc.Keys) > 0 {
				combos[comboOf(sc.Keys, owner[it.ID].Spec.Metadata)] = true
			}
		}
		// ---- C10 ----------------------------------------------------------
		if len(sc.Keys) > 0 {
			if len(combos) > 1 {
				w.violate("C10", "export #%d mixes metadata combinations %v", e.Seq, keysOf(combos))
			}
			for cb := range combos {
				if cb != e.Combo {
					w.violate("C10", "export #%d: client metadata seen by the exporter is %q but its items belong to %q", e.Seq, e.Combo, cb)
				}
			}
		}
	}
	if len(sc.Keys) > 0 && sc.Limit > 0 {
		seen := map[string]bool{}
		for _, e := range w.exports {
			for _, it := range e.Items {
				if c := owner[it.ID]; c != nil {
					seen[comboOf(sc.Keys, c.Spec.Metadata)] = true
				}
			}
		}
		// a request that was accepted (enqueued, or answered with nil) admits its combination too,
		// whether or not its items ever reach the exporter
		for _, c := range w.callers {
			for _, rs := range c.Reqs {
				if rs.Started && (rs.Sent || (rs.Returned && rs.Err == nil)) {
					seen[comboOf(sc.Keys, c.Spec.Metadata)] = true
				}
			}
		}
		if len(seen) > int(sc.Limit) {
			w.violate("C10", "%d distinct metadata combinations were admitted, metadata_cardinality_limit=%d: %v", len(seen), sc.Limit, keysOf(seen))
		}
		// a refusal must be a permanent error; and must only happen when the limit is really reached
		distinct := map[string]bool{}
		for _, c := range w.callers {
			distinct[comboOf(sc.Keys, c.Spec.Metadata)] = true
		}
		for _, c := range w.callers {
			for _, rs := range c.Reqs {
				if rs.Returned && rs.Err != nil && !isCtxErr(rs.Err) && !errors.Is(rs.Err, errSink) && !rs.Sent {
					if !consumererror.IsPermanent(rs.Err) {
						w.violate("C10", "caller %s was refused with a non-permanent error: %v", c.Spec.Label, rs.Err)
					}
					// A refusal is only legitimate when the limit is exhausted: limit != 0
					// and at least `limit` combinations admitted (by the end of the
					// execution, which is implied by "at the time of the refusal").  Not
					// demanded: that the refused combination itself is new - a request
					// whose combination is already admitted can lose the Load-miss/Lock
					// race for the last slot (D8-two-keys); see DESIGN.md 0.3.
					admitted := map[string]bool{}
					for _, c2 := range w.callers {
						for _, r2 := range c2.Reqs {
							// a request that ended with its own context error before it was enqueued
							// may have created its shard (and so taken a slot) all the same
							ctxEnded := r2.Returned && isCtxErr(r2.Err) && r2.CtxErrAtReturn != nil
							if r2.Started && (r2.Sent || (r2.Returned && r2.Err == nil) || ctxEnded) {
								admitted[comboOf(sc.Keys, c2.Spec.Metadata)] = true
							}
						}
					}
					if len(admitted) < int(sc.Limit) {
						w.violate("C10", "caller %s was refused (%v) although only %d combination(s) were ever admitted and the limit is %d", c.Spec.Label, rs.Err, len(admitted), sc.Limit)
					}
					_ = distinct
				}
			}
		}
	}
	if len(sc.Keys) > 0 && sc.Limit == 0 {
		for _, c := range w.callers {
			for _, rs := range c.Reqs {
				if rs.Returned && rs.Err != nil && !rs.Sent && consumererror.IsPermanent(rs.Err) && !isCtxErr(rs.Err) && !errors.Is(rs.Err, errSink) {
					w.violate("C10", "caller %s was refused (%v) although metadata_cardinality_limit is 0 (unlimited)", c.Spec.Label, rs.Err)
				}
			}
		}
	}
	// ---- C09: size trigger and deadline ------------------------------------
	w.checkSizeTrigger()
	w.checkDeadline()
	// ---- C18 ---------------------------------------------------------------
	w.checkContexts(owner)
	// ---- C11: everything terminated ----------------------------------------
	if !w.shutdownReturned {
		w.violate("C11", "execution ended but Shutdown never returned")
	}
	// outcome signature
	var parts []string
	for _, e := range w.exports {
		var ids []string
		for _, it := range e.Items {
			ids = append(ids, it.ID)
		}
		sort.Strings(ids)
		parts = append(parts, fmt.Sprintf("[%s]%v", strings.Join(ids, ","), e.Err != nil))
	}
	sort.Strings(parts)
	for _, c := range w.callers {
		for _, rs := range c.Reqs {
			parts = append(parts, fmt.Sprintf("%s:%v", c.Spec.Label, rs.Err))
		}
	}
	h := fnv.New64a()
	h.Write([]byte(strings.Join(parts, "|")))
	return w.viol, h.Sum64()
}

func keysOf(m map[string]bool) []string {
	var k []string
	for x := range m {
		k = append(k, x)
	}
	sort.Strings(k)
	return k
}

// checkSizeTrigger reconstructs the shard's timeline from the scheduler's
// channel log: after the shard has dequeued request k and before it dequeues
// the next one, the items it still buffers must be < send_batch_size (or 0
// when there is no timer).
func (w *World) checkSizeTrigger() {
	sc := w.sc
	s := w.sched // captured in Main: the logs stay readable after the run
	if s == nil {
		return
	}
	callerThreads := map[*vs.Thread]*CallerState{}
	for _, c := range w.callers {
		callerThreads[c.Thread] = c
	}
	// per newItem channel (one per shard)
	type chanState struct {
		sizes []int // sizes of requests in send order
		shard *vs.Thread
		recvs []int // steps of shard receives
	}
	chans := map[uintptr]*chanState{}
	nth := map[*vs.Thread]int{}
	for _, ev := range s.ChanLog {
		if c, ok := callerThreads[ev.Thread]; ok && ev.Send {
			cs := chans[ev.Ch]
			if cs == nil {
				cs = &chanState{}
				chans[ev.Ch] = cs
			}
			// the n-th send of this thread is its n-th request that performed a send
			k := nth[ev.Thread]
			nth[ev.Thread]++
			idx := -1
			cnt := 0
			for i, rs := range c.Reqs {
				if rs.Sent || (rs.Started && !rs.Returned) {
					if cnt == k {
						idx = i
						break
					}
					cnt++
				}
			}
			if idx < 0 {
				continue
			}
			cs.sizes = append(cs.sizes, c.Reqs[idx].N)
		}
	}
	for _, ev := range s.ChanLog {
		if cs, ok := chans[ev.Ch]; ok && !ev.Send {
			cs.shard = ev.Thread
			cs.recvs = append(cs.recvs, ev.Step)
		}
	}
	hasTimer := sc.Timeout != 0 && sc.S != 0
	for _, cs := range chans {
		if cs.shard == nil {
			continue
		}
		// exports spawned by this shard, with their item counts
		type sp struct{ step, n int }
		var spawns []sp
		for _, e := range w.exports {
			if e.Thread != nil && e.Thread.Parent == cs.shard {
				spawns = append(spawns, sp{e.Thread.SpawnStep, len(e.Items)})
			}
		}
		if len(spawns) == 0 && len(w.exports) > 0 {
			// the thread that dequeues requests is not the one that spawns the
			// exports (a different internal structure): the timeline cannot be
			// reconstructed, so the size-trigger clause is not judged here
			continue
		}
		// steps at which the shard arrives at a blocking select again (its outer loop)
		var parks []int
		for _, pe := range s.ParkLog {
			if pe.Thread == cs.shard {
				parks = append(parks, pe.Step)
			}
		}
		deq := 0
		for k, step := range cs.recvs {
			if k < len(cs.sizes) {
				deq += cs.sizes[k]
			}
			// the moment the shard has finished handling this request: its next
			// arrival at a blocking select, or its termination
			horizon := cs.shard.DoneStep
			if !cs.shard.Done() {
				horizon = int(^uint(0) >> 1)
			}
			for _, ps := range parks {
				if ps > step {
					horizon = ps
					break
				}
			}
			if k+1 < len(cs.recvs) && cs.recvs[k+1] < horizon {
				continue // dequeued the next request before blocking again (drain loop): judged there
			}
			exp := 0
			for _, x := range spawns {
				if x.step <= horizon {
					exp += x.n
				}
			}
			buf := deq - exp
			oracleEvals["C09_size_trigger_points_judged"]++
			if hasTimer && buf >= int(sc.S) {
				w.violate("C09", "after handling request #%d the shard went back to waiting with %d items buffered although send_batch_size=%d is reached", k, buf, sc.S)
			}
			if !hasTimer && buf != 0 {
				w.violate("C09", "no flush timer is configured, yet the shard went back to waiting with %d items buffered after handling request #%d", buf, k)
			}
		}
	}
}

// checkDeadline: with a quiescent virtual clock, every item is exported no
// later than `timeout` after its request arrived.
func (w *World) checkDeadline() {
	sc := w.sc
	if sc.FreeTimers || sc.ShutdownAt == 0 || sc.K != 0 {
		return
	}
	limit := int64(sc.Timeout)
	if sc.Timeout == 0 || sc.S == 0 {
		limit = 0
	}
	d := w.deliveries()
	for _, c := range w.callers {
		for _, rs := range c.Reqs {
			if !rs.Sent {
				continue
			}
			for _, id := range rs.IDs {
				for _, e := range d[id] {
					oracleEvals["C09_item_deadlines_judged"]++
					if lat := e.EnterTime - rs.ArriveTime; lat > limit {
						w.violate("C09", "item %s was accepted at t=%d and exported at t=%d: %d > timeout %d (virtual ns)", id, rs.ArriveTime, e.EnterTime, lat, limit)
					}
				}
			}
		}
	}
}

// checkContexts: C18.
func (w *World) checkContexts(owner map[string]*CallerState) {
	sc := w.sc
	for _, e := range w.exports {
		ctxs := map[context.Context][]*CallerState{}
		var order []context.Context
		for _, it := range e.Items {
			c := owner[it.ID]
			if c == nil {
				continue
			}
			if _, ok := ctxs[c.Ctx]; !ok {
				order = append(order, c.Ctx)
			}
			found := false
			for _, x := range ctxs[c.Ctx] {
				if x == c {
					found = true
				}
			}
			if !found {
				ctxs[c.Ctx] = append(ctxs[c.Ctx], c)
			}
		}
		if len(order) >= 2 {
			oracleEvals["C18_multi_context_exports_judged"]++
			for _, c := range w.callers {
				if c.Ctrl != nil && e.Ctrl == c.Ctrl {
					w.violate("C18", "export #%d carries items from %d request contexts but runs under (a context derived from) the context of caller %s", e.Seq, len(order), c.Spec.Label)
				}
			}
			if e.ErrEntry != nil || e.ErrExit != nil {
				w.violate("C18", "export #%d carries items from %d request contexts and its context is done (%v)", e.Seq, len(order), e.ErrExit)
			}
			if sc.Tracing {
				for _, cx := range order {
					c := ctxs[cx][0]
					if c.Span == nil {
						continue
					}
					want := c.Span.SpanContext()
					ok := false
					for _, l := range e.Links {
						if l.SpanID() == want.SpanID() && l.TraceID() == want.TraceID() {
							ok = true
						}
					}
					if !ok {
						w.violate("C18", "export #%d (multi-context) has no span link to the request span of caller %s", e.Seq, c.Spec.Label)
					}
					back := false
					if rs, ok := c.Span.(readSpan); ok {
						for _, l := range rs.Links() {
							if l.SpanContext.SpanID() == e.SpanCtx.SpanID() {
								back = true
							}
						}
					}
					if !back {
						w.violate("C18", "request span of caller %s has no link back to the export span of export #%d", c.Spec.Label, e.Seq)
					}
				}
				if e.Parent.IsValid() {
					for _, c := range w.callers {
						if c.Span != nil && e.Parent.SpanID() == c.Span.SpanContext().SpanID() {
							w.violate("C18", "export #%d (multi-context) is a child of caller %s's span", e.Seq, c.Spec.Label)
						}
					}
				}
			}
		} else if len(order) == 1 && sc.Tracing {
			oracleEvals["C18_single_context_exports_judged"]++
			c := ctxs[order[0]][0]
			if c.Span != nil && e.Parent.SpanID() != c.Span.SpanContext().SpanID() {
				w.violate("C18", "export #%d is fed by the single request context of caller %s but is not a child of its span", e.Seq, c.Spec.Label)
			}
		}
	}
	// a caller's result must never be another caller's context error
	for _, c := range w.callers {
		for _, rs := range c.Reqs {
			if rs.Returned && isCtxErr(rs.Err) && rs.CtxErrAtReturn == nil {
				w.violate("C18", "caller %s returned %v although its own context was never done", c.Spec.Label, rs.Err)
			}
		}
	}
}
