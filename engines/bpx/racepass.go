package main

// Free-running pass for the data-race clause of C11: the same processor
// configurations and request shapes as the explored drivers, real goroutines,
// real time, built with -race.  A dynamic detector on sampled schedules (the
// cooperative scheduler's hand-offs are happens-before edges, so the explored
// runs themselves are blind to races).

import (
	"context"
	"encoding/json"
	"fmt"
	"math/rand"
	"os"
	"sync"
	"sync/atomic"
	"time"

	"go.opentelemetry.io/collector/client"
	"go.opentelemetry.io/collector/component/componenttest"
	"go.opentelemetry.io/collector/consumer"
	"go.opentelemetry.io/collector/pdata/plog"
	"go.opentelemetry.io/collector/pdata/pmetric"
	"go.opentelemetry.io/collector/pdata/ptrace"
	sdktrace "go.opentelemetry.io/otel/sdk/trace"
	"go.opentelemetry.io/otel/trace"

	cbp "github.com/open-telemetry/otel-arrow/collector/processor/concurrentbatchprocessor"
)

func racePass(tier string) int {
	iters := 60
	if tier == "thorough" {
		iters = 300
	}
	seed := int64(1)
	if v := os.Getenv("VERIF_SEED"); v != "" {
		fmt.Sscan(v, &seed)
	}
	rng := rand.New(rand.NewSource(seed))
	runs := 0
	var exports atomic.Int64
	hangs := 0
	for _, sc := range allScenarios("quick") {
		if len(sc.Pack) > 0 {
			continue
		}
		for it := 0; it < iters; it++ {
			runs++
			f := cbp.NewFactory()
			cfg := f.CreateDefaultConfig().(*cbp.Config)
			cfg.SendBatchSize, cfg.SendBatchMaxSize = sc.S, sc.M
			cfg.Timeout = time.Duration(0)
			if sc.Timeout > 0 {
				cfg.Timeout = time.Duration(1+rng.Intn(3)) * time.Millisecond
			}
			cfg.MetadataKeys, cfg.MetadataCardinalityLimit = sc.Keys, sc.Limit
			cfg.MaxConcurrency, cfg.EarlyReturn = sc.K, sc.Early
			var tp trace.TracerProvider
			if sc.Tracing {
				tp = sdktrace.NewTracerProvider()
			}
			set := nopSettings(tp)
			failEvery := 0
			if sc.SinkFail {
				failEvery = 2 + rng.Intn(3)
			}
			delay := time.Duration(rng.Intn(200)) * time.Microsecond
			sink := func(ctx context.Context, n int) error {
				k := exports.Add(1)
				if delay > 0 {
					time.Sleep(delay)
				}
				if sc.SinkHonoursCtx && ctx.Err() != nil {
					return ctx.Err()
				}
				if failEvery > 0 && int(k)%failEvery == 0 {
					return errSink
				}
				return nil
			}
			bg := context.Background()
			var consume func(ctx context.Context, ci, ri int) error
			var shutdown func(context.Context) error
			w := newWorld(sc) // builds the request data
			switch sc.Signal {
			case "traces":
				next, _ := consumer.NewTraces(func(ctx context.Context, td ptrace.Traces) error { return sink(ctx, td.SpanCount()) })
				p, err := f.CreateTraces(bg, set, cfg, next)
				if err != nil {
					continue
				}
				p.Start(bg, componenttest.NewNopHost())
				shutdown = p.Shutdown
				consume = func(ctx context.Context, ci, ri int) error { return p.ConsumeTraces(ctx, w.datas[ci*16+ri].(ptrace.Traces)) }
			case "logs":
				next, _ := consumer.NewLogs(func(ctx context.Context, ld plog.Logs) error { return sink(ctx, ld.LogRecordCount()) })
				p, err := f.CreateLogs(bg, set, cfg, next)
				if err != nil {
					continue
				}
				p.Start(bg, componenttest.NewNopHost())
				shutdown = p.Shutdown
				consume = func(ctx context.Context, ci, ri int) error { return p.ConsumeLogs(ctx, w.datas[ci*16+ri].(plog.Logs)) }
			default:
				next, _ := consumer.NewMetrics(func(ctx context.Context, md pmetric.Metrics) error { return sink(ctx, md.DataPointCount()) })
				p, err := f.CreateMetrics(bg, set, cfg, next)
				if err != nil {
					continue
				}
				p.Start(bg, componenttest.NewNopHost())
				shutdown = p.Shutdown
				consume = func(ctx context.Context, ci, ri int) error { return p.ConsumeMetrics(ctx, w.datas[ci*16+ri].(pmetric.Metrics)) }
			}
			var wg sync.WaitGroup
			ctxs := make([]context.Context, len(sc.Callers))
			cancels := make([]context.CancelFunc, len(sc.Callers))
			for ci := range sc.Callers {
				spec := sc.Callers[ci]
				ctx := bg
				if spec.ShareCtx > 0 {
					ctxs[ci] = ctxs[spec.ShareCtx-1]
					continue
				}
				if spec.Metadata != nil {
					ctx = client.NewContext(ctx, client.Info{Metadata: client.NewMetadata(spec.Metadata)})
				}
				ctx, cancels[ci] = context.WithTimeout(ctx, 2*time.Second)
				if sc.Tracing {
					ctx, _ = tp.Tracer("driver").Start(ctx, "req")
				}
				ctxs[ci] = ctx
			}
			for ci := range sc.Callers {
				ci := ci
				spec := sc.Callers[ci]
				wg.Add(1)
				go func() {
					defer wg.Done()
					for ri := range spec.Reqs {
						_ = consume(ctxs[ci], ci, ri)
					}
				}()
				if spec.Cancellable && cancels[ci] != nil && it%2 == 0 {
					d := time.Duration(rng.Intn(300)) * time.Microsecond
					c := cancels[ci]
					go func() { time.Sleep(d); c() }()
				}
			}
			done := make(chan struct{})
			go func() { wg.Wait(); close(done) }()
			select {
			case <-done:
			case <-time.After(5 * time.Second):
				hangs++
			}
			sd := make(chan struct{})
			go func() { shutdown(bg); close(sd) }()
			select {
			case <-sd:
			case <-time.After(5 * time.Second):
				hangs++
			}
			for _, c := range cancels {
				if c != nil {
					c()
				}
			}
		}
	}
	fmt.Printf("racepass: %d free-running executions, %d exports, %d hangs (hangs are judged by the explorer, not here)\n", runs, exports.Load(), hangs)
	if out := os.Getenv("RACEPASS_OUT"); out != "" {
		b, _ := json.Marshal(map[string]any{"free_running_executions": runs, "exports": exports.Load(), "hangs_not_judged_here": hangs})
		os.WriteFile(out, b, 0o644)
	}
	return 0
}
