package main

import (
	"fmt"
	"time"

	"go.opentelemetry.io/collector/pdata/pmetric"
)

const T = time.Second

func sh(res ...ResShape) Shape { return Shape{Res: res} }

func rs(key string, scopes ...ScopeShape) ResShape { return ResShape{Key: key, Scopes: scopes} }

// sc builds a scope shape holding n items; for metrics the items are spread
// over metrics of the given types (one metric per type, points split evenly,
// remainder to the first).
func scp(signal, key string, n int) ScopeShape {
	if signal != "metrics" {
		return ScopeShape{Key: key, Items: n}
	}
	// one gauge holding all the points unless a mix is requested elsewhere
	return ScopeShape{Key: key, Metrics: []MetricShape{{Key: key + "g", Type: pmetric.MetricTypeGauge, Points: n}}}
}

func simple(signal, who string, n int) Shape {
	return sh(rs("r"+who, scp(signal, "s"+who, n)))
}

var metricTypes = []pmetric.MetricType{pmetric.MetricTypeGauge, pmetric.MetricTypeSum, pmetric.MetricTypeHistogram,
	pmetric.MetricTypeExponentialHistogram, pmetric.MetricTypeSummary}

// nested: 2 resources x 2 scopes, items (2,1 | 1,1) = 5; metrics variant uses the given type for every metric
func nested5(signal string, mt pmetric.MetricType) Shape {
	if signal != "metrics" {
		return sh(rs("r1", ScopeShape{Key: "s1", Items: 2}, ScopeShape{Key: "s2", Items: 1}),
			rs("r2", ScopeShape{Key: "s1", Items: 1}, ScopeShape{Key: "s2", Items: 1}))
	}
	m := func(k string, n int) []MetricShape { return []MetricShape{{Key: k, Type: mt, Points: n}} }
	return sh(rs("r1", ScopeShape{Key: "s1", Metrics: []MetricShape{{Key: "m1", Type: mt, Points: 3}}}),
		rs("r2", ScopeShape{Key: "s1", Metrics: m("m2", 1)}, ScopeShape{Key: "s2", Metrics: m("m3", 1)}))
}

type scenarioSet struct {
	list []*Scenario
}

func (ss *scenarioSet) add(s Scenario) {
	if s.NumCPU == 0 {
		s.NumCPU = 1
	}
	c := s
	ss.list = append(ss.list, &c)
}

func bools(b bool) string {
	if b {
		return "1"
	}
	return "0"
}

// allScenarios builds the driver table of DESIGN.md appendix B.
func allScenarios(tier string) []*Scenario {
	ss := &scenarioSet{}
	thorough := tier == "thorough"
	signals := []string{"traces"}
	if thorough {
		signals = []string{"traces", "logs", "metrics"}
	}
	for _, sig := range signals {
		for _, early := range []bool{false, true} {
			for _, k := range []uint32{0, 1} {
				tag := fmt.Sprintf("%s/er%s/k%d", sig, bools(early), k)
				// D1 merge: two callers into one batch
				ss.add(Scenario{Name: "D1-merge/" + tag, Signal: sig, S: 4, Timeout: T, Early: early, K: k, SinkFail: true,
					FreeTimers: true, MaxFires: 1,
					Callers: []CallerSpec{{Label: "A", Reqs: []Shape{simple(sig, "A", 2)}}, {Label: "B", Reqs: []Shape{simple(sig, "B", 2)}}}})
				// D3 merge + split: B is partially sent
				ss.add(Scenario{Name: "D3-mergesplit/" + tag, Signal: sig, S: 4, M: 4, Timeout: T, Early: early, K: k, SinkFail: true,
					Callers: []CallerSpec{{Label: "A", Reqs: []Shape{simple(sig, "A", 3)}}, {Label: "B", Reqs: []Shape{simple(sig, "B", 3)}}}})
			}
			tag := fmt.Sprintf("%s/er%s", sig, bools(early))
			// D4 timer flush
			ss.add(Scenario{Name: "D4-timer/" + tag, Signal: sig, S: 10, Timeout: T, Early: early, FreeTimers: true, MaxFires: 2,
				Callers: []CallerSpec{{Label: "A", Reqs: []Shape{simple(sig, "A", 1)}}, {Label: "B", Reqs: []Shape{simple(sig, "B", 2)}}}})
			// D5 shutdown with items buffered / still in the channel
			for _, ncpu := range []int{1, 2} {
				ss.add(Scenario{Name: fmt.Sprintf("D5-shutdown/%s/cpu%d", tag, ncpu), Signal: sig, S: 10, Timeout: T, Early: early, NumCPU: ncpu,
					Callers: []CallerSpec{{Label: "A", Reqs: []Shape{simple(sig, "A", 1)}}, {Label: "B", Reqs: []Shape{simple(sig, "B", 1)}}, {Label: "C", Reqs: []Shape{simple(sig, "C", 1)}}}})
			}
			// D6 immediate modes
			for i, cfg := range [][3]int{{0, 0, 1}, {3, 0, 0}, {0, 2, 1}} {
				ss.add(Scenario{Name: fmt.Sprintf("D6-immediate%d/%s", i, tag), Signal: sig, S: uint32(cfg[0]), M: uint32(cfg[1]), Timeout: time.Duration(cfg[2]) * T,
					Early: early, SinkFail: i != 2,
					Callers: []CallerSpec{{Label: "A", Reqs: []Shape{simple(sig, "A", 3)}}, {Label: "B", Reqs: []Shape{simple(sig, "B", 1)}}}})
			}
		}
	}
	if !thorough {
		// the per-signal batch types share no code: immediate modes (no max size, no batch size) for logs and metrics too
		for _, sig := range []string{"logs", "metrics"} {
			for i, cfg := range [][3]int{{0, 0, 1}, {3, 0, 0}, {0, 2, 1}, {4, 0, 1}} {
				ss.add(Scenario{Name: fmt.Sprintf("D6-immediate%d/%s/er1", i, sig), Signal: sig, S: uint32(cfg[0]), M: uint32(cfg[1]), Timeout: time.Duration(cfg[2]) * T,
					Early: true, QB: 1,
					Callers: []CallerSpec{{Label: "A", Reqs: []Shape{simple(sig, "A", 3)}}, {Label: "B", Reqs: []Shape{simple(sig, "B", 1)}}}})
			}
		}
	}
	// D2 split of one nested request over three batches, all signals and metric types
	for _, sig := range []string{"traces", "logs", "metrics"} {
		mts := []pmetric.MetricType{pmetric.MetricTypeGauge}
		if sig == "metrics" {
			mts = metricTypes
		}
		for _, mt := range mts {
			for _, early := range []bool{false, true} {
				ss.add(Scenario{Name: fmt.Sprintf("D2-split/%s/%s/er%s", sig, mt.String(), bools(early)), Signal: sig, S: 2, M: 2, Timeout: T, Early: early, SinkFail: !early,
					Callers: []CallerSpec{{Label: "A", Reqs: []Shape{nested5(sig, mt)}}}})
				if sig == "traces" {
					// the same split under max_concurrency 1: three exports of one request queue behind one permit
					ss.add(Scenario{Name: fmt.Sprintf("D2-split/%s/%s/er%s/k1", sig, mt.String(), bools(early)), Signal: sig, S: 2, M: 2, Timeout: T, Early: early, SinkFail: !early, K: 1,
						Callers: []CallerSpec{{Label: "A", Reqs: []Shape{nested5(sig, mt)}}}})
				}
			}
		}
	}
	// Shutdown called with a context that expires while the final flush is still being exported
	// by a slow downstream: it must wait all the same
	for _, early := range []bool{false, true} {
		for _, k := range []uint32{0, 1} {
			ss.add(Scenario{Name: fmt.Sprintf("D5-shutdown-deadline/er%s/k%d", bools(early), k), QB: 1, TB: 2, Signal: "logs", S: 10, Timeout: 4 * T, Early: early, K: k,
				SinkDelay: 2 * T, ShutdownAt: T / 2, ShutdownTimeout: T / 4,
				Callers: []CallerSpec{{Label: "A", Reqs: []Shape{simple("logs", "A", 1)}}, {Label: "B", ArriveAt: T / 4, Reqs: []Shape{simple("logs", "B", 2)}}}})
		}
	}
	// D7 cancellation anywhere
	for _, k := range []uint32{0, 1} {
		ss.add(Scenario{Name: fmt.Sprintf("D7-cancel-merge/k%d", k), Signal: "traces", S: 4, Timeout: T, K: k, SinkFail: true,
			Callers: []CallerSpec{{Label: "A", Cancellable: true, Reqs: []Shape{simple("traces", "A", 2)}}, {Label: "B", Reqs: []Shape{simple("traces", "B", 2)}}}})
		ss.add(Scenario{Name: fmt.Sprintf("D7-cancel-split/k%d", k), Signal: "traces", S: 4, M: 4, Timeout: T, K: k,
			Callers: []CallerSpec{{Label: "A", Reqs: []Shape{simple("traces", "A", 3)}}, {Label: "B", Cancellable: true, Reqs: []Shape{simple("traces", "B", 3)}}}})
	}
	// A's request spans two batches, the second shared with B; A may leave with a response unconsumed
	ss.add(Scenario{Name: "D7-cancel-spanning", Signal: "traces", S: 4, M: 4, Timeout: T,
		Callers: []CallerSpec{{Label: "A", Cancellable: true, Reqs: []Shape{simple("traces", "A", 6)}}, {Label: "B", Reqs: []Shape{simple("traces", "B", 2)}}}})
	// the same under one export permit, with a later caller whose items depend on the permit coming back
	ss.add(Scenario{Name: "D7-cancel-spanning-k1", QB: 1, TB: 2, Signal: "traces", S: 4, M: 4, Timeout: T, K: 1, ShutdownAt: 4 * T,
		Callers: []CallerSpec{{Label: "A", Cancellable: true, Reqs: []Shape{simple("traces", "A", 6)}}, {Label: "B", Reqs: []Shape{simple("traces", "B", 2)}},
			{Label: "C", ArriveAt: 2 * T, Reqs: []Shape{simple("traces", "C", 1)}}}})
	ss.add(Scenario{Name: "D7-cancel-early", Signal: "traces", S: 4, Timeout: T, Early: true,
		Callers: []CallerSpec{{Label: "A", Cancellable: true, Reqs: []Shape{simple("traces", "A", 2)}}, {Label: "B", Reqs: []Shape{simple("traces", "B", 2)}}}})
	ss.add(Scenario{Name: "D7-cancel-one-split", Signal: "traces", S: 2, M: 2, Timeout: T, SinkFail: true,
		Callers: []CallerSpec{{Label: "A", Cancellable: true, Reqs: []Shape{simple("traces", "A", 4)}}}})
	addTenants(ss, thorough)
	addContexts(ss, thorough)
	addTiming(ss, thorough)
	addTimingShapes(ss, thorough)
	addSplitLayer(ss, thorough)
	addSeqLayer(ss, thorough)
	addMergeSplitGrid(ss, thorough)
	addFeatureGrid(ss, thorough)
	// a caller cancelled while it waits for room in the shard's input channel (stalled export, max_concurrency 1)
	ss.add(Scenario{Name: "D7-cancel-backpressure", QZero: true, TB: 1, Signal: "traces", S: 1, Timeout: T, K: 1, NumCPU: 1, Early: true,
		Callers: []CallerSpec{{Label: "B", Reqs: []Shape{simple("traces", "B", 1)}}, {Label: "C", Reqs: []Shape{simple("traces", "C", 1)}},
			{Label: "D", Reqs: []Shape{simple("traces", "D", 1)}}, {Label: "A", Cancellable: true, Reqs: []Shape{simple("traces", "A", 1)}}}})
	// K2: max_concurrency=2 with three batches in flight
	for _, early := range []bool{false, true} {
		if !early && !thorough {
			continue
		}
		ss.add(Scenario{Name: "K2-three-batches/er" + bools(early), TB: 2, Signal: "traces", S: 1, Timeout: T, K: 2, Early: early, SinkFail: false,
			Callers: []CallerSpec{{Label: "A", Reqs: []Shape{simple("traces", "A", 1)}}, {Label: "B", Reqs: []Shape{simple("traces", "B", 1)}}, {Label: "C", Reqs: []Shape{simple("traces", "C", 1)}}}})
	}
	return ss.list
}

func md(kv ...string) map[string][]string {
	m := map[string][]string{}
	for i := 0; i+1 < len(kv); i += 2 {
		m[kv[i]] = append(m[kv[i]], kv[i+1])
	}
	return m
}

// D8: tenants and the cardinality limit
func addTenants(ss *scenarioSet, thorough bool) {
	one := func(who string, n int) []Shape { return []Shape{simple("traces", who, n)} }
	keys := []string{"Tenant"}
	// race for the last free slot: two new combinations, limit 1
	ss.add(Scenario{Name: "D8-limit1-race", Signal: "traces", S: 2, Timeout: T, Keys: keys, Limit: 1, SinkFail: false,
		Callers: []CallerSpec{{Label: "A", Reqs: one("A", 1), Metadata: md("tenant", "x")}, {Label: "B", Reqs: one("B", 1), Metadata: md("TENANT", "y")}}})
	// three combinations (single, other, multi-valued) racing for two slots
	ss.add(Scenario{Name: "D8-limit2-race3", QB: 1, TB: 2, Signal: "traces", S: 0, Timeout: 0, Early: true, Keys: keys, Limit: 2,
		Callers: []CallerSpec{{Label: "A", Reqs: one("A", 1), Metadata: md("tenant", "x")}, {Label: "B", Reqs: one("B", 1), Metadata: md("tenant", "y")},
			{Label: "C", Reqs: one("C", 1), Metadata: md("tenant", "x", "tenant", "y")}}})
	// same combination twice + a different one: merge only equals (limit 2 is enough)
	ss.add(Scenario{Name: "D8-merge-equal", QB: 1, TB: 2, Signal: "traces", S: 2, Timeout: T, Early: true, Keys: keys, Limit: 2,
		Callers: []CallerSpec{{Label: "A", Reqs: one("A", 1), Metadata: md("tenant", "x")}, {Label: "B", Reqs: one("B", 1), Metadata: md("Tenant", "x")},
			{Label: "C", Reqs: one("C", 1), Metadata: md("tenant", "y")}}})
	// empty value vs absent vs unrelated key are distinct combinations; unlimited
	ss.add(Scenario{Name: "D8-empty-vs-absent", QB: 1, TB: 2, Signal: "traces", S: 2, Timeout: T, Early: true, Keys: keys, Limit: 0,
		Callers: []CallerSpec{{Label: "A", Reqs: one("A", 1), Metadata: md("tenant", "")}, {Label: "B", Reqs: one("B", 1), Metadata: md("other", "x")},
			{Label: "C", Reqs: one("C", 1)}}})
	// a tenant that falls silent for g flush intervals and then comes back at the very moment of a
	// tick (a shard must stay reachable for as long as a caller can still find it)
	for _, early := range []bool{false, true} {
		pack := Scenario{Name: "D5-idle-tenant/er" + bools(early), Bound: 1, TB: 2}
		for g := 1; g <= 13; g++ {
			sub := Scenario{Name: fmt.Sprintf("%s/gap%d", pack.Name, g), Signal: "traces", S: 4, Timeout: T, Early: early, Keys: keys, Limit: 0, NumCPU: 1, ShutdownAt: 16 * T,
				Callers: []CallerSpec{{Label: "A", Gap: time.Duration(g) * T, Reqs: []Shape{simple("traces", "A", 1), simple("traces", "A2", 1)}, Metadata: md("tenant", "x")},
					{Label: "B", ArriveAt: time.Duration(g)*T + T/2, Reqs: one("B", 1), Metadata: md("tenant", "x")}}}
			pack.Pack = append(pack.Pack, &sub)
		}
		ss.add(pack)
	}
	// values that look alike once rendered: the string `["x","y"]` vs the two values x, y; the
	// string "[]" vs no value at all; "x,y" vs x, y; (any textual encoding of the combination is suspect)
	for i, pair := range [][2]map[string][]string{{md("tenant", `["x","y"]`), md("tenant", "x", "tenant", "y")}, {md("tenant", "[]"), nil},
		{md("tenant", "x,y"), md("tenant", "x", "tenant", "y")}, {md("tenant", "a\xffb", "tenant", "c"), md("tenant", "a\xfeb", "tenant", "c")}} {
		ss.add(Scenario{Name: fmt.Sprintf("D8-lookalike-values/%d", i), QB: 1, TB: 2, Signal: "traces", S: 2, Timeout: T, Early: true, Keys: keys, Limit: 0,
			Callers: []CallerSpec{{Label: "A", Reqs: one("A", 1), Metadata: pair[0]}, {Label: "B", Reqs: one("B", 1), Metadata: pair[1]}}})
	}
	// the same under a limit: each look-alike pair must count as two combinations
	ss.add(Scenario{Name: "D8-lookalike-limit1", QZero: true, TB: 1, Signal: "traces", S: 2, Timeout: T, Early: true, Keys: keys, Limit: 1,
		Callers: []CallerSpec{{Label: "C", Reqs: one("C", 1), Metadata: md("tenant", "[]")}, {Label: "D", ArriveAt: T / 4, Reqs: one("D", 1)}}})
	// two keys, swapped values must not be confused
	ss.add(Scenario{Name: "D8-two-keys", QB: 1, TB: 2, Signal: "traces", S: 2, Timeout: T, Early: true, Keys: []string{"B", "a"}, Limit: 2,
		Callers: []CallerSpec{{Label: "A", Reqs: one("A", 1), Metadata: md("a", "x", "b", "y")}, {Label: "B", Reqs: one("B", 1), Metadata: md("a", "y", "b", "x")},
			{Label: "C", Reqs: one("C", 1), Metadata: md("A", "x", "B", "y")}}})
	// per-combination concurrency bound: two tenants, each request split into two exports, one permit per combination
	ss.add(Scenario{Name: "D8-k1-two-tenants", QB: 1, TB: 2, Signal: "traces", S: 1, M: 1, Timeout: T, Keys: keys, Limit: 0, K: 1, NumCPU: 1,
		Callers: []CallerSpec{{Label: "A", Reqs: one("A", 2), Metadata: md("tenant", "x")}, {Label: "B", Reqs: one("B", 1), Metadata: md("tenant", "y")}}})
	// two first arrivals of one combination race, then a second combination arrives with two requests
	// that are merged (the batch is exported with the shard's own metadata context)
	ss.add(Scenario{Name: "D8-race-then-new", QB: 1, TB: 2, Signal: "traces", S: 2, Timeout: T, Early: true, Keys: keys, Limit: 0,
		Callers: []CallerSpec{{Label: "A", Reqs: one("A", 1), Metadata: md("tenant", "x")}, {Label: "B", Reqs: one("B", 1), Metadata: md("tenant", "x")},
			{Label: "C", ArriveAt: T / 4, Reqs: one("C", 1), Metadata: md("tenant", "y")}, {Label: "D", ArriveAt: T / 4, Reqs: one("D", 1), Metadata: md("tenant", "y")}}})
	// a refused caller retries after the slot race; second request of an admitted tenant still works
	ss.add(Scenario{Name: "D8-limit1-two-requests", Signal: "traces", S: 1, Timeout: T, Keys: keys, Limit: 1,
		Callers: []CallerSpec{{Label: "A", Reqs: []Shape{simple("traces", "A", 1), simple("traces", "A2", 1)}, Metadata: md("tenant", "x")},
			{Label: "B", Reqs: one("B", 1), Metadata: md("tenant", "y")}}})
	// a refused combination comes back: it must stay refused (and nothing of it may be parked or exported)
	for _, early := range []bool{false, true} {
		ss.add(Scenario{Name: "D8-limit1-retry/er" + bools(early), Signal: "traces", S: 1, Timeout: T, Keys: keys, Limit: 1, Early: early,
			Callers: []CallerSpec{{Label: "A", Reqs: one("A", 1), Metadata: md("tenant", "x")},
				{Label: "B", Reqs: []Shape{simple("traces", "B", 1), simple("traces", "B2", 1)}, Metadata: md("tenant", "y")}}})
	}
	// the first request of a combination is cancelled while it waits for its response; the slot it
	// took stays taken (its items are still exported): a further combination must stay refused
	for _, early := range []bool{false, true} {
		ss.add(Scenario{Name: "D8-limit1-cancel-first/er" + bools(early), QB: 1, TB: 2, Signal: "traces", S: 4, Timeout: T, Keys: keys, Limit: 1, Early: early,
			Callers: []CallerSpec{{Label: "A", Cancellable: true, Reqs: one("A", 1), Metadata: md("tenant", "x")},
				{Label: "B", ArriveAt: T / 4, Reqs: one("B", 1), Metadata: md("tenant", "y")}}})
	}
	// the same with the second combination racing freely, and a second request of the cancelled tenant
	ss.add(Scenario{Name: "D8-limit1-cancel-first-free", QB: 1, TB: 2, Signal: "traces", S: 4, Timeout: T, Keys: keys, Limit: 1,
		Callers: []CallerSpec{{Label: "A", Cancellable: true, Reqs: []Shape{simple("traces", "A", 1), simple("traces", "A2", 1)}, Metadata: md("tenant", "x")},
			{Label: "B", Reqs: one("B", 1), Metadata: md("tenant", "y")}}})
	// the flush timer ticks on an idle shard, then a size-triggered flush, then one more request and Shutdown
	for _, early := range []bool{false, true} {
		for _, sz := range []int{2, 3} {
			ss.add(Scenario{Name: fmt.Sprintf("D3-idle-tick/er%s/a%d", bools(early), sz), QB: 1, TB: 2, Signal: "traces", S: 2, Timeout: T, Early: early, ShutdownAt: 6 * T, NumCPU: 1,
				Callers: []CallerSpec{{Label: "A", ArriveAt: 3 * T / 2, Reqs: one("A", sz)}, {Label: "B", ArriveAt: 5 * T / 2, Reqs: one("B", 1)}}})
		}
	}
	// cancellation of a first-ever request of one tenant while another tenant's first request waits downstream
	ss.add(Scenario{Name: "D7-cancel-tenants", QB: 2, TB: 2, Signal: "traces", S: 4, Timeout: T, Keys: keys, Limit: 0,
		Callers: []CallerSpec{{Label: "A", Reqs: one("A", 1), Metadata: md("tenant", "x")}, {Label: "B", Cancellable: true, Reqs: one("B", 1), Metadata: md("tenant", "y")}}})
	if thorough {
		ss.add(Scenario{Name: "D8-limit2-race3-k1", TB: 2, Signal: "traces", S: 1, Timeout: T, Keys: keys, Limit: 2, K: 1,
			Callers: []CallerSpec{{Label: "A", Reqs: one("A", 1), Metadata: md("tenant", "x")}, {Label: "B", Reqs: one("B", 1), Metadata: md("tenant", "y")},
				{Label: "C", Reqs: one("C", 1), Metadata: md("tenant", "z")}}})
	}
}

// D9: caller contexts
func addContexts(ss *scenarioSet, thorough bool) {
	one := func(who string, n int) []Shape { return []Shape{simple("traces", who, n)} }
	base := Scenario{Signal: "traces", S: 4, Timeout: T, Tracing: true, SinkHonoursCtx: true}
	mk := func(name string, mod func(*Scenario)) {
		s := base
		s.Name = name
		mod(&s)
		ss.add(s)
	}
	mk("D9-two/2+2", func(s *Scenario) {
		s.Callers = []CallerSpec{{Label: "A", Cancellable: true, Reqs: one("A", 2)}, {Label: "B", Cancellable: true, Reqs: one("B", 2)}}
	})
	mk("D9-three/1+1+2", func(s *Scenario) {
		s.QB, s.TB = 1, 2
		s.Callers = []CallerSpec{{Label: "A", Reqs: one("A", 1)}, {Label: "B", Reqs: one("B", 1)}, {Label: "C", Cancellable: true, Reqs: one("C", 2)}}
	})
	mk("D9-three-shared/XXY", func(s *Scenario) {
		s.QB, s.TB = 1, 2
		s.Callers = []CallerSpec{{Label: "A", Cancellable: true, Reqs: one("A", 1)}, {Label: "B", ShareCtx: 1, Reqs: one("B", 1)}, {Label: "C", Reqs: one("C", 2)}}
	})
	// two contributors are different spans of one trace (one upstream operation fanning out), the third is unrelated
	mk("D9-same-trace/1+1+2", func(s *Scenario) {
		s.QB, s.TB = 1, 2
		s.Callers = []CallerSpec{{Label: "A", TraceGroup: 1, Reqs: one("A", 1)}, {Label: "B", TraceGroup: 1, Reqs: one("B", 1)}, {Label: "C", Reqs: one("C", 2)}}
	})
	mk("D9-same-trace/2+2", func(s *Scenario) {
		s.Callers = []CallerSpec{{Label: "A", TraceGroup: 1, Cancellable: true, Reqs: one("A", 2)}, {Label: "B", TraceGroup: 1, Reqs: one("B", 2)}}
	})
	mk("D9-single/4", func(s *Scenario) {
		s.Callers = []CallerSpec{{Label: "A", Cancellable: true, Reqs: one("A", 4)}}
	})
	mk("D9-shared/2+2", func(s *Scenario) {
		s.Callers = []CallerSpec{{Label: "A", Cancellable: true, Reqs: one("A", 2)}, {Label: "B", ShareCtx: 1, Reqs: one("B", 2)}}
	})
	mk("D9-partial/3+3", func(s *Scenario) {
		s.M = 4
		s.Callers = []CallerSpec{{Label: "A", Reqs: one("A", 3)}, {Label: "B", Cancellable: true, Reqs: one("B", 3)}}
	})
	// a request that ends exactly on a batch boundary, followed by a batch fed by one other context
	mk("D9-aligned/2|2", func(s *Scenario) {
		s.S = 2
		s.Callers = []CallerSpec{{Label: "A", Cancellable: true, Reqs: one("A", 2)}, {Label: "B", Reqs: one("B", 2)}}
	})
	mk("D9-aligned-max/4|2", func(s *Scenario) {
		s.S, s.M = 2, 2
		s.Callers = []CallerSpec{{Label: "A", Reqs: one("A", 4)}, {Label: "B", CtxOnly: true, Reqs: one("B", 2)}}
	})
	mk("D9-deadline/2+2", func(s *Scenario) {
		s.ShutdownAt = 5 * T
		s.Callers = []CallerSpec{{Label: "A", Deadline: T / 2, Reqs: one("A", 2)}, {Label: "B", ArriveAt: 3 * T / 4, Reqs: one("B", 2)}}
	})
	// metadata keys: the shard (and its export context) is created by A's request;
	// a later batch merges B and C (same tenant, different request contexts)
	mk("D9-keys/2|1+1", func(s *Scenario) {
		s.QB, s.TB = 1, 2
		s.S = 2
		s.Early = true
		s.Keys = []string{"tenant"}
		s.Callers = []CallerSpec{{Label: "A", CtxOnly: true, Metadata: md("tenant", "x"), Reqs: one("A", 2)},
			{Label: "B", Metadata: md("tenant", "x"), Reqs: one("B", 1)}, {Label: "C", Metadata: md("tenant", "x"), Reqs: one("C", 1)}}
	})
	if thorough {
		mk("D9-three-cancel-any/1+1+2", func(s *Scenario) {
			s.TB = 2
			s.Callers = []CallerSpec{{Label: "A", Cancellable: true, Reqs: one("A", 1)}, {Label: "B", Cancellable: true, Reqs: one("B", 1)}, {Label: "C", Cancellable: true, Reqs: one("C", 2)}}
		})
		mk("D9-two-early/2+2", func(s *Scenario) {
			s.Early = true
			s.Callers = []CallerSpec{{Label: "A", Cancellable: true, Reqs: one("A", 2)}, {Label: "B", Reqs: one("B", 2)}}
		})
	}
}

// T9: size limits and flush deadlines under a quiescent virtual clock
func addTiming(ss *scenarioSet, thorough bool) {
	// (2,3,T): a request of 5 leaves a remainder in [size, max) after the split
	cfgs := [][3]int{{0, 0, 1}, {0, 3, 1}, {3, 0, 0}, {3, 3, 1}, {3, 5, 1}, {2, 0, 1}, {4, 4, 0}, {2, 3, 1}}
	sizes := []int{1, 2, 3, 5}
	if thorough {
		sizes = []int{1, 2, 3, 5, 7}
	}
	grid := []time.Duration{0, T / 2, T, 3 * T / 2}
	for ci, cfg := range cfgs {
		pack := Scenario{Name: fmt.Sprintf("T9-timing-%s/cfg%d-S%d-M%d-T%d", tierTag(thorough), ci, cfg[0], cfg[1], cfg[2])}
		addSeq := func(ns []int, ts []time.Duration) {
			var callers []CallerSpec
			name := pack.Name + "/"
			for i := range ns {
				lbl := string(rune('A' + i))
				callers = append(callers, CallerSpec{Label: lbl, ArriveAt: ts[i], Reqs: []Shape{simple("traces", lbl, ns[i])}})
				name += fmt.Sprintf("%d@%d,", ns[i], ts[i]/(T/2))
			}
			sub := Scenario{Name: name, Signal: "traces", S: uint32(cfg[0]), M: uint32(cfg[1]), Timeout: time.Duration(cfg[2]) * T,
				ShutdownAt: 6 * T, Callers: callers, NumCPU: 1}
			pack.Pack = append(pack.Pack, &sub)
		}
		for _, a := range sizes {
			for _, ta := range grid {
				addSeq([]int{a}, []time.Duration{ta})
			}
		}
		for _, a := range sizes {
			for _, b := range sizes {
				for i, ta := range grid {
					for _, tb := range grid[i:] {
						addSeq([]int{a, b}, []time.Duration{ta, tb})
					}
				}
			}
		}
		if thorough {
			small := []int{1, 2, 3}
			for _, a := range small {
				for _, b := range small {
					for _, c := range small {
						for i, ta := range grid {
							for j, tb := range grid[i:] {
								for _, tc := range grid[i+j:] {
									addSeq([]int{a, b, c}, []time.Duration{ta, tb, tc})
								}
							}
						}
					}
				}
			}
		}
		// slow downstream: every export call takes a noticeable virtual time, so requests are
		// accepted while earlier exports are still in flight and exports complete between ticks
		if cfg[0] > 0 && cfg[2] > 0 {
			delays := []time.Duration{3 * T / 4}
			if thorough {
				delays = []time.Duration{T / 4, 3 * T / 4, 5 * T / 4}
			}
			for _, dl := range delays {
				n0 := len(pack.Pack)
				for _, a := range sizes[:3] {
					for _, b := range sizes[:3] {
						for i, ta := range grid {
							for _, tb := range grid[i:] {
								addSeq([]int{a, b}, []time.Duration{ta, tb})
							}
						}
					}
				}
				for _, sub := range pack.Pack[n0:] {
					sub.SinkDelay = dl
					sub.Name += fmt.Sprintf("slow%d", dl/(T/4))
				}
			}
		}
		const chunk = 45
		for off := 0; off < len(pack.Pack); off += chunk {
			end := off + chunk
			if end > len(pack.Pack) {
				end = len(pack.Pack)
			}
			p := pack
			p.Name = fmt.Sprintf("%s/part%d", pack.Name, off/chunk)
			p.Pack = pack.Pack[off:end]
			p.Bound = 1
			p.TB = 2
			ss.add(p)
		}
	}
}

func shapeCfgs(thorough bool) [][3]int {
	if thorough {
		return [][3]int{{3, 3, 1}, {2, 3, 1}, {3, 5, 1}, {3, 0, 1}, {4, 4, 1}}
	}
	return [][3]int{{3, 3, 1}, {2, 3, 1}, {3, 0, 1}}
}

func shapeReqs(thorough bool) [][]int {
	if thorough {
		return [][]int{{2, 2}, {1, 3}, {3, 1}, {1, 1, 2}, {2}}
	}
	return [][]int{{2, 2}, {1, 3}, {1, 1, 2}}
}

// T9-shapes: the deadline clause for every signal with a small first request and a
// multi-resource second request that crosses send_batch_size and leaves a remainder
func addTimingShapes(ss *scenarioSet, thorough bool) {
	for _, sig := range []string{"traces", "logs", "metrics"} {
		pack := Scenario{Name: fmt.Sprintf("T9-shapes-%s/%s", tierTag(thorough), sig), Bound: 1, TB: 2}
		for _, cfg := range shapeCfgs(thorough) {
			for _, a := range []int{1, 2} {
				for _, bs := range shapeReqs(thorough) {
					for _, tb := range []time.Duration{0, T / 2} {
						var res []ResShape
						for i, n := range bs {
							res = append(res, rs(fmt.Sprintf("rB%d", i), scp(sig, fmt.Sprintf("sB%d", i), n)))
						}
						sub := Scenario{Name: fmt.Sprintf("%s/S%dM%d/a%d-b%v@%d", pack.Name, cfg[0], cfg[1], a, bs, tb/(T/2)), Signal: sig,
							S: uint32(cfg[0]), M: uint32(cfg[1]), Timeout: time.Duration(cfg[2]) * T, ShutdownAt: 6 * T, NumCPU: 1,
							Callers: []CallerSpec{{Label: "A", Reqs: []Shape{simple(sig, "A", a)}}, {Label: "B", ArriveAt: tb, Reqs: []Shape{sh(res...)}}}}
						pack.Pack = append(pack.Pack, &sub)
					}
				}
			}
		}
		const chunk = 20
		for off := 0; off < len(pack.Pack); off += chunk {
			end := off + chunk
			if end > len(pack.Pack) {
				end = len(pack.Pack)
			}
			p := pack
			p.Name = fmt.Sprintf("%s/part%d", pack.Name, off/chunk)
			p.Pack = pack.Pack[off:end]
			ss.add(p)
		}
	}
}

// SPLIT: sequential exhaustive layer for the split functions through the
// public API: every small request shape x every send_batch_max_size.
var metricLists [][]int

func addSplitLayer(ss *scenarioSet, thorough bool) {
	maxRes0, maxItems0 := 2, 2
	if thorough {
		maxRes0, maxItems0 = 3, 3
	}
	for _, sig := range []string{"traces", "logs", "metrics"} {
		maxRes, maxItems := maxRes0, maxItems0
		if sig == "metrics" {
			maxRes = 1 // metric lists make each scope 20+ ways already; two scopes under one resource
		}
		var shapes []Shape
		// scopes per resource: 1..2, items per scope: 0..maxItems
		var scopeOpts [][]int // item counts per scope list
		if sig == "metrics" {
			// a scope is an index into metricLists (lists of points per metric)
			metricLists = nil
			top := 3
			if thorough {
				top = 5
			}
			for a := 0; a <= top; a++ {
				metricLists = append(metricLists, []int{a})
			}
			for a := 0; a <= 3; a++ {
				for b := 0; b <= 3; b++ {
					metricLists = append(metricLists, []int{a, b})
				}
			}
			maxItems = len(metricLists) - 1
		}
		for a := 0; a <= maxItems; a++ {
			scopeOpts = append(scopeOpts, []int{a})
			for b := 0; b <= maxItems; b++ {
				scopeOpts = append(scopeOpts, []int{a, b})
			}
		}
		var rec func(prefix [][]int, depth int)
		rec = func(prefix [][]int, depth int) {
			if len(prefix) > 0 {
				var sh Shape
				tot := 0
				mt := 0
				for ri, scs := range prefix {
					r := ResShape{Key: fmt.Sprintf("r%d", ri)}
					for si, n := range scs {
						key := fmt.Sprintf("s%d%d", ri, si)
						if sig == "metrics" {
							scs := ScopeShape{Key: key}
							// n encodes the metric list of this scope: see metricLists
							for mi, pts := range metricLists[n] {
								scs.Metrics = append(scs.Metrics, MetricShape{Key: fmt.Sprintf("%s%c", key, 'a'+mi), Type: metricTypes[mt%5], Points: pts})
								mt++
								tot += pts
							}
							r.Scopes = append(r.Scopes, scs)
							continue
						} else {
							r.Scopes = append(r.Scopes, ScopeShape{Key: key, Items: n})
						}
						tot += n
					}
					sh.Res = append(sh.Res, r)
				}
				if tot > 0 {
					shapes = append(shapes, sh)
				}
			}
			if depth == maxRes {
				return
			}
			for _, o := range scopeOpts {
				rec(append(append([][]int{}, prefix...), o), depth+1)
			}
		}
		rec(nil, 0)
		const per = 400
		for off := 0; off < len(shapes); off += per {
			end := off + per
			if end > len(shapes) {
				end = len(shapes)
			}
			pack := Scenario{Name: fmt.Sprintf("SPLIT-%s-%s/%d", sig, tierTag(thorough), off/per), Bound: 0}
			for i, shp := range shapes[off:end] {
				tot := shp.Count()
				for m := 1; m <= tot; m++ {
					sub := Scenario{Name: fmt.Sprintf("%s/shape%d/M%d", pack.Name, off+i, m), Signal: sig, S: 0, M: uint32(m), Timeout: 0, Early: true, NumCPU: 1, K: 1,
						Callers: []CallerSpec{{Label: "A", Reqs: []Shape{shp}}}}
					pack.Pack = append(pack.Pack, &sub)
				}
			}
			pack.Bound = 0
			pack.ZeroBound = true
			ss.add(pack)
		}
	}
}

// SEQ: one caller, two or three sequential requests, every (sizes, S, M)
// combination around the boundaries count==size and count==max.
func addSeqLayer(ss *scenarioSet, thorough bool) {
	maxN := 4
	if thorough {
		maxN = 6
	}
	for _, sig := range []string{"traces", "logs", "metrics"} {
		pack := Scenario{Name: "SEQ-" + sig + "-" + tierTag(thorough), ZeroBound: true}
		for m := 1; m <= maxN; m++ {
			szs := []int{0, m}
			if m >= 2 {
				szs = append(szs, m-1) // max > size: remainders in [size, max)
			}
			if m >= 4 {
				szs = append(szs, 2)
			}
			for _, sz := range szs {
				for a := 1; a <= maxN; a++ {
					for b := 1; b <= maxN; b++ {
						reqs := []Shape{simple(sig, "A", a), simple(sig, "B", b)}
						name := fmt.Sprintf("%s/S%d-M%d/%d,%d", pack.Name, sz, m, a, b)
						if thorough && a <= 3 && b <= 3 {
							for c := 1; c <= 3; c++ {
								sub := Scenario{Name: fmt.Sprintf("%s,%d", name, c), Signal: sig, S: uint32(sz), M: uint32(m), Timeout: T, NumCPU: 1, K: 1,
									Callers: []CallerSpec{{Label: "A", Reqs: append(append([]Shape{}, reqs...), simple(sig, "C", c))}}}
								pack.Pack = append(pack.Pack, &sub)
							}
						}
						sub := Scenario{Name: name, Signal: sig, S: uint32(sz), M: uint32(m), Timeout: T, NumCPU: 1, K: 1, SinkFail: a+b <= 5,
							Callers: []CallerSpec{{Label: "A", Reqs: reqs}}}
						pack.Pack = append(pack.Pack, &sub)
					}
				}
			}
		}
		ss.add(pack)
	}
}

func tierTag(thorough bool) string {
	if thorough {
		return "t"
	}
	return "q"
}

// MS: two concurrent callers A:a, B:b for every small (a, b) and S = M in {2, 3}:
// every way a complete contributor can precede a partially served one.
func addMergeSplitGrid(ss *scenarioSet, thorough bool) {
	maxN := 3
	if thorough {
		maxN = 4
	}
	for _, sm := range []int{2, 3} {
		pack := Scenario{Name: fmt.Sprintf("MS-grid-%s/S%dM%d", tierTag(thorough), sm, sm), Bound: 1, TB: 2}
		for a := 1; a <= maxN; a++ {
			for b := 1; b <= maxN; b++ {
				sub := Scenario{Name: fmt.Sprintf("%s/%d,%d", pack.Name, a, b), Signal: "traces", S: uint32(sm), M: uint32(sm), Timeout: T, NumCPU: 1, Tracing: false,
					SinkFail: a+b <= 4,
					Callers: []CallerSpec{{Label: "A", Reqs: []Shape{simple("traces", "A", a)}}, {Label: "B", Reqs: []Shape{simple("traces", "B", b)}}}}
				pack.Pack = append(pack.Pack, &sub)
			}
		}
		ss.add(pack)
	}
}
