package main

import (
	"fmt"
	"time"

	"go.opentelemetry.io/collector/pdata/pmetric"
)

const T = time.Second

func sh(res ...ResShape) Shape { return Shape{Res: res} }

func rs(key string, scopes ...ScopeShape) ResShape { return ResShape{Key: key, Scopes: scopes} }

// sc builds a scope shape holding n items; for metrics the items are spread
// over metrics of the given types (one metric per type, points split evenly,
// remainder to the first).
func scp(signal, key string, n int) ScopeShape {
	if signal != "metrics" {
		return ScopeShape{Key: key, Items: n}
	}
	// one gauge holding all the points unless a mix is requested elsewhere
	return ScopeShape{Key: key, Metrics: []MetricShape{{Key: key + "g", Type: pmetric.MetricTypeGauge, Points: n}}}
}

func simple(signal, who string, n int) Shape {
	return sh(rs("r"+who, scp(signal, "s"+who, n)))
}

var metricTypes = []pmetric.MetricType{pmetric.MetricTypeGauge, pmetric.MetricTypeSum, pmetric.MetricTypeHistogram,
	pmetric.MetricTypeExponentialHistogram, pmetric.MetricTypeSummary}

// nested: 2 resources x 2 scopes, items (2,1 | 1,1) = 5; metrics variant uses the given type for every metric
func nested5(signal string, mt pmetric.MetricType) Shape {
	if signal != "metrics" {
		return sh(rs("r1", ScopeShape{Key: "s1", Items: 2}, ScopeShape{Key: "s2", Items: 1}),
			rs("r2", ScopeShape{Key: "s1", Items: 1}, ScopeShape{Key: "s2", Items: 1}))
	}
	m := func(k string, n int) []MetricShape { return []MetricShape{{Key: k, Type: mt, Points: n}} }
	return sh(rs("r1", ScopeShape{Key: "s1", Metrics: []MetricShape{{Key: "m1", Type: mt, Points: 3}}}),
		rs("r2", ScopeShape{Key: "s1", Metrics: m("m2", 1)}, ScopeShape{Key: "s2", Metrics: m("m3", 1)}))
}

type scenarioSet struct {
	list []*Scenario
}

func (ss *scenarioSet) add(s Scenario) {
	if s.NumCPU == 0 {
		s.NumCPU = 1
	}
	c := s
	ss.list = append(ss.list, &c)
}

func bools(b bool) string {
	if b {
		return "1"
	}
	return "0"
}

// allScenarios builds the driver table of DESIGN.md appendix B.
func allScenarios(tier string) []*Scenario {
	ss := &scenarioSet{}
	thorough := tier == "thorough"
	signals := []string{"traces"}
	if thorough {
		signals = []string{"traces", "logs", "metrics"}
	}
	for _, sig := range signals {
		for _, early := range []bool{false, true} {
			for _, k := range []uint32{0, 1} {
				tag := fmt.Sprintf("%s/er%s/k%d", sig, bools(early), k)
				// D1 merge: two callers into one batch
				ss.add(Scenario{Name: "D1-merge/" + tag, Signal: sig, S: 4, Timeout: T, Early: early, K: k, SinkFail: true,
					FreeTimers: true, MaxFires: 1,
					Callers: []CallerSpec{{Label: "A", Reqs: []Shape{simple(sig, "A", 2)}}, {Label: "B", Reqs: []Shape{simple(sig, "B", 2)}}}})
				// D3 merge + split: B is partially sent
				ss.add(Scenario{Name: "D3-mergesplit/" + tag, Signal: sig, S: 4, M: 4, Timeout: T, Early: early, K: k, SinkFail: true,
					Callers: []CallerSpec{{Label: "A", Reqs: []Shape{simple(sig, "A", 3)}}, {Label: "B", Reqs: []Shape{simple(sig, "B", 3)}}}})
			}
			tag := fmt.Sprintf("%s/er%s", sig, bools(early))
			// D4 timer flush
			ss.add(Scenario{Name: "D4-timer/" + tag, Signal: sig, S: 10, Timeout: T, Early: early, FreeTimers: true, MaxFires: 2,
				Callers: []CallerSpec{{Label: "A", Reqs: []Shape{simple(sig, "A", 1)}}, {Label: "B", Reqs: []Shape{simple(sig, "B", 2)}}}})
			// D5 shutdown with items buffered / still in the channel
			for _, ncpu := range []int{1, 2} {
				ss.add(Scenario{Name: fmt.Sprintf("D5-shutdown/%s/cpu%d", tag, ncpu), Signal: sig, S: 10, Timeout: T, Early: early, NumCPU: ncpu,
					Callers: []CallerSpec{{Label: "A", Reqs: []Shape{simple(sig, "A", 1)}}, {Label: "B", Reqs: []Shape{simple(sig, "B", 1)}}, {Label: "C", Reqs: []Shape{simple(sig, "C", 1)}}}})
			}
			// D6 immediate modes
			for i, cfg := range [][3]int{{0, 0, 1}, {3, 0, 0}, {0, 2, 1}} {
				ss.add(Scenario{Name: fmt.Sprintf("D6-immediate%d/%s", i, tag), Signal: sig, S: uint32(cfg[0]), M: uint32(cfg[1]), Timeout: time.Duration(cfg[2]) * T,
					Early: early, SinkFail: true,
					Callers: []CallerSpec{{Label: "A", Reqs: []Shape{simple(sig, "A", 3)}}, {Label: "B", Reqs: []Shape{simple(sig, "B", 1)}}}})
			}
		}
	}
	// D2 split of one nested request over three batches, all signals and metric types
	for _, sig := range []string{"traces", "logs", "metrics"} {
		mts := []pmetric.MetricType{pmetric.MetricTypeGauge}
		if sig == "metrics" {
			mts = metricTypes
		}
		for _, mt := range mts {
			for _, early := range []bool{false, true} {
				ss.add(Scenario{Name: fmt.Sprintf("D2-split/%s/%s/er%s", sig, mt.String(), bools(early)), Signal: sig, S: 2, M: 2, Timeout: T, Early: early, SinkFail: !early,
					Callers: []CallerSpec{{Label: "A", Reqs: []Shape{nested5(sig, mt)}}}})
			}
		}
	}
	// D7 cancellation anywhere
	for _, k := range []uint32{0, 1} {
		ss.add(Scenario{Name: fmt.Sprintf("D7-cancel-merge/k%d", k), Signal: "traces", S: 4, Timeout: T, K: k, SinkFail: true,
			Callers: []CallerSpec{{Label: "A", Cancellable: true, Reqs: []Shape{simple("traces", "A", 2)}}, {Label: "B", Reqs: []Shape{simple("traces", "B", 2)}}}})
		ss.add(Scenario{Name: fmt.Sprintf("D7-cancel-split/k%d", k), Signal: "traces", S: 4, M: 4, Timeout: T, K: k,
			Callers: []CallerSpec{{Label: "A", Reqs: []Shape{simple("traces", "A", 3)}}, {Label: "B", Cancellable: true, Reqs: []Shape{simple("traces", "B", 3)}}}})
	}
	ss.add(Scenario{Name: "D7-cancel-early", Signal: "traces", S: 4, Timeout: T, Early: true,
		Callers: []CallerSpec{{Label: "A", Cancellable: true, Reqs: []Shape{simple("traces", "A", 2)}}, {Label: "B", Reqs: []Shape{simple("traces", "B", 2)}}}})
	ss.add(Scenario{Name: "D7-cancel-one-split", Signal: "traces", S: 2, M: 2, Timeout: T, SinkFail: true,
		Callers: []CallerSpec{{Label: "A", Cancellable: true, Reqs: []Shape{simple("traces", "A", 4)}}}})
	return ss.list
}
