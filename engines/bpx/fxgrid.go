package main

import (
	"encoding/json"
	"fmt"
	"os"
	"time"

	"go.opentelemetry.io/collector/pdata/pmetric"
)

// FX: feature-interaction grid.  The hand-written drivers each exercise one or
// two configuration features; the seeded changes that were missed at first
// almost always needed a *combination* nobody had written down (cardinality
// limit + cancellation, slow downstream + timer, early_return + contexts ...).
// The FX layer enumerates the configuration space
//
//	sizes x (S,M,timeout) x max_concurrency x early_return x who-is-cancellable x
//	export-failure x tenants x clock x signal
//
// and selects a t-way covering subset of it (every combination of values of
// any t factors occurs in at least one selected configuration; t = 3 quick,
// t = 4 thorough; deterministic greedy construction).  Each selected
// configuration is a closed two-caller driver explored exhaustively at the
// preemption bound of its pack (0 in the quick tier: every choice at blocking
// points, select arms, export results and cancellation points, no preemption of
// a runnable thread; 1 in the thorough tier), under every monitor.
type fxFactor struct {
	name   string
	levels int
}

var fxFactors = []fxFactor{
	{"sizes", 4}, {"cfg", 5}, {"k", 2}, {"early", 2}, {"cancel", 3}, {"fail", 2}, {"tenants", 4}, {"clock", 3}, {"signal", 3},
}

var fxSizes = [][2]int{{1, 1}, {2, 1}, {1, 2}, {2, 2}}
var fxCfgs = [][3]int{{2, 0, 1}, {2, 2, 1}, {0, 2, 1}, {3, 0, 0}, {2, 3, 1}}

// fxCover returns a deterministic t-way covering array over fxFactors.
func fxCover(t int) [][]int {
	// the parent computes the array once and hands it to its workers
	env := fmt.Sprintf("BPX_FXROWS_%d", t)
	if v := os.Getenv(env); v != "" {
		var rows [][]int
		if json.Unmarshal([]byte(v), &rows) == nil && len(rows) > 0 {
			return rows
		}
	}
	rows := fxCoverCompute(t)
	if b, err := json.Marshal(rows); err == nil {
		os.Setenv(env, string(b))
	}
	return rows
}

func fxCoverCompute(t int) [][]int {
	nf := len(fxFactors)
	// all rows of the full product
	var rows [][]int
	var rec func(prefix []int)
	rec = func(prefix []int) {
		if len(prefix) == nf {
			rows = append(rows, append([]int{}, prefix...))
			return
		}
		for l := 0; l < fxFactors[len(prefix)].levels; l++ {
			rec(append(prefix, l))
		}
	}
	rec(nil)
	// all factor subsets of size t
	var subsets [][]int
	var sub func(start int, cur []int)
	sub = func(start int, cur []int) {
		if len(cur) == t {
			subsets = append(subsets, append([]int{}, cur...))
			return
		}
		for i := start; i < nf; i++ {
			sub(i+1, append(cur, i))
		}
	}
	sub(0, nil)
	// tuple index: per subset a mixed-radix number
	offsets := make([]int, len(subsets)+1)
	for i, s := range subsets {
		n := 1
		for _, f := range s {
			n *= fxFactors[f].levels
		}
		offsets[i+1] = offsets[i] + n
	}
	covered := make([]bool, offsets[len(subsets)])
	remaining := len(covered)
	tupleOf := func(row []int, si int) int {
		x := 0
		for _, f := range subsets[si] {
			x = x*fxFactors[f].levels + row[f]
		}
		return offsets[si] + x
	}
	var out [][]int
	for remaining > 0 {
		best, bestGain := -1, 0
		for ri, row := range rows {
			gain := 0
			for si := range subsets {
				if !covered[tupleOf(row, si)] {
					gain++
				}
			}
			if gain > bestGain {
				best, bestGain = ri, gain
			}
		}
		if best < 0 {
			break
		}
		row := rows[best]
		for si := range subsets {
			ti := tupleOf(row, si)
			if !covered[ti] {
				covered[ti] = true
				remaining--
			}
		}
		out = append(out, row)
	}
	return out
}

func fxScenario(row []int) *Scenario {
	sz := fxSizes[row[0]]
	cfg := fxCfgs[row[1]]
	sig := []string{"traces", "logs", "metrics"}[row[8]]
	mk := func(who string, n int) []Shape {
		if sig == "metrics" && n >= 2 {
			// two metrics of different types under one scope
			return []Shape{sh(rs("r"+who, ScopeShape{Key: "s" + who, Metrics: []MetricShape{
				{Key: who + "g", Type: pmetric.MetricTypeGauge, Points: n - 1}, {Key: who + "h", Type: pmetric.MetricTypeHistogram, Points: 1}}}))}
		}
		return []Shape{simple(sig, who, n)}
	}
	a := CallerSpec{Label: "A", Reqs: mk("A", sz[0])}
	b := CallerSpec{Label: "B", Reqs: mk("B", sz[1])}
	sc := &Scenario{Signal: sig, S: uint32(cfg[0]), M: uint32(cfg[1]), Timeout: time.Duration(cfg[2]) * T, K: uint32(row[2]), Early: row[3] == 1,
		SinkFail: row[5] == 1, NumCPU: 1}
	switch row[4] {
	case 1:
		a.Cancellable = true
	case 2:
		b.Cancellable = true
	}
	if row[4] != 0 {
		sc.SinkHonoursCtx = true
		sc.Tracing = true
	}
	switch row[6] {
	case 1: // one tenant, unlimited
		sc.Keys = []string{"Tenant"}
		a.Metadata, b.Metadata = md("tenant", "x"), md("TENANT", "x")
	case 2: // two tenants, room for both
		sc.Keys, sc.Limit = []string{"Tenant"}, 2
		a.Metadata, b.Metadata = md("tenant", "x"), md("tenant", "y")
	case 3: // two tenants, room for one
		sc.Keys, sc.Limit = []string{"Tenant"}, 1
		a.Metadata, b.Metadata = md("tenant", "x"), md("tenant", "y")
	}
	switch row[7] {
	case 0: // Shutdown as soon as both callers have enqueued or returned
	case 1: // quiescent virtual clock, B arrives a quarter period after A
		sc.ShutdownAt = 6 * T
		b.ArriveAt = T / 4
	case 2: // the same with a slow downstream
		sc.ShutdownAt = 6 * T
		b.ArriveAt = T / 4
		sc.SinkDelay = 3 * T / 4
	}
	sc.Callers = []CallerSpec{a, b}
	sc.Name = fmt.Sprintf("a%db%d-S%dM%dT%d-k%d-er%d-c%d-f%d-t%d-clk%d-%s", sz[0], sz[1], cfg[0], cfg[1], cfg[2], row[2], row[3], row[4], row[5], row[6], row[7], sig)
	return sc
}

func addFeatureGrid(ss *scenarioSet, thorough bool) {
	t := 3
	if thorough {
		t = 4
	}
	rows := fxCover(t)
	const chunk = 4
	for off := 0; off < len(rows); off += chunk {
		end := off + chunk
		if end > len(rows) {
			end = len(rows)
		}
		pack := Scenario{Name: fmt.Sprintf("FX-grid-%s-%dway/part%d", tierTag(thorough), t, off/chunk), Bound: 1, TB: 1, ZeroBound: !thorough}
		for _, row := range rows[off:end] {
			sub := fxScenario(row)
			sub.Name = pack.Name + "/" + sub.Name
			pack.Pack = append(pack.Pack, sub)
		}
		ss.add(pack)
	}
}
