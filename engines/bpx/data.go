package main

import (
	"crypto/sha256"
	"encoding/hex"
	"fmt"
	"sort"
	"strings"

	"go.opentelemetry.io/collector/pdata/pcommon"
	"go.opentelemetry.io/collector/pdata/plog"
	"go.opentelemetry.io/collector/pdata/pmetric"
	"go.opentelemetry.io/collector/pdata/ptrace"
)

// ItemObs is what the monitors know about one item (span / log record /
// metric data point): its unique id, a digest of its own content and a
// canonical rendering of the containers it sits in.
type ItemObs struct {
	ID        string
	Content   string
	Container string
}

func digest(b []byte) string {
	h := sha256.Sum256(b)
	return hex.EncodeToString(h[:8])
}

func canonMap(m pcommon.Map) string {
	var parts []string
	m.Range(func(k string, v pcommon.Value) bool {
		parts = append(parts, fmt.Sprintf("%q=%s:%q", k, v.Type().String(), v.AsString()))
		return true
	})
	sort.Strings(parts)
	return "{" + strings.Join(parts, ",") + "}"
}

func canonResource(r pcommon.Resource, schemaURL string) string {
	return fmt.Sprintf("res(attrs=%s,dropped=%d,url=%q)", canonMap(r.Attributes()), r.DroppedAttributesCount(), schemaURL)
}

func canonScope(s pcommon.InstrumentationScope, schemaURL string) string {
	return fmt.Sprintf("scope(name=%q,ver=%q,attrs=%s,dropped=%d,url=%q)", s.Name(), s.Version(), canonMap(s.Attributes()), s.DroppedAttributesCount(), schemaURL)
}

// Shape describes a request: resources -> scopes -> number of items (for
// metrics: scopes -> metrics -> number of points, with a metric type).
type Shape struct {
	Res []ResShape
}
type ResShape struct {
	Key    string // resource identity key (two ResShape with equal Key are equal resources)
	Scopes []ScopeShape
}
type ScopeShape struct {
	Key     string
	Items   int           // traces/logs: number of records
	Metrics []MetricShape // metrics
}
type MetricShape struct {
	Key    string
	Type   pmetric.MetricType
	Points int
}

func (sh Shape) Count() int {
	n := 0
	for _, r := range sh.Res {
		for _, s := range r.Scopes {
			n += s.Items
			for _, m := range s.Metrics {
				n += m.Points
			}
		}
	}
	return n
}

func fillResource(r pcommon.Resource, key string) {
	r.Attributes().PutStr("res", key)
	r.Attributes().PutInt("n", int64(len(key)))
	r.SetDroppedAttributesCount(uint32(len(key)) + 1)
}

func fillScope(s pcommon.InstrumentationScope, key string) {
	s.SetName("scope-" + key)
	s.SetVersion("v" + key)
	s.Attributes().PutStr("sc", key)
	s.SetDroppedAttributesCount(uint32(len(key)) + 2)
}

// BuildTraces builds a request; ids are prefix-0, prefix-1, ...
func BuildTraces(prefix string, sh Shape) (ptrace.Traces, []string) {
	td := ptrace.NewTraces()
	var ids []string
	n := 0
	for _, rs := range sh.Res {
		r := td.ResourceSpans().AppendEmpty()
		fillResource(r.Resource(), rs.Key)
		r.SetSchemaUrl("https://res/" + rs.Key)
		for _, ss := range rs.Scopes {
			s := r.ScopeSpans().AppendEmpty()
			fillScope(s.Scope(), ss.Key)
			s.SetSchemaUrl("https://scope/" + ss.Key)
			for i := 0; i < ss.Items; i++ {
				id := fmt.Sprintf("%s-%d", prefix, n)
				n++
				sp := s.Spans().AppendEmpty()
				sp.SetName(id)
				sp.SetKind(ptrace.SpanKindServer)
				sp.SetStartTimestamp(pcommon.Timestamp(1000 + n))
				sp.SetEndTimestamp(pcommon.Timestamp(2000 + n))
				sp.Attributes().PutStr("id", id)
				sp.Attributes().PutInt("k", int64(n))
				ev := sp.Events().AppendEmpty()
				ev.SetName("ev-" + id)
				sp.Status().SetMessage("st-" + id)
				ids = append(ids, id)
			}
		}
	}
	return td, ids
}

func FlattenTraces(td ptrace.Traces) []ItemObs {
	var out []ItemObs
	m := ptrace.ProtoMarshaler{}
	for i := 0; i < td.ResourceSpans().Len(); i++ {
		r := td.ResourceSpans().At(i)
		rc := canonResource(r.Resource(), r.SchemaUrl())
		for j := 0; j < r.ScopeSpans().Len(); j++ {
			s := r.ScopeSpans().At(j)
			sc := canonScope(s.Scope(), s.SchemaUrl())
			for k := 0; k < s.Spans().Len(); k++ {
				sp := s.Spans().At(k)
				one := ptrace.NewTraces()
				sp.CopyTo(one.ResourceSpans().AppendEmpty().ScopeSpans().AppendEmpty().Spans().AppendEmpty())
				b, _ := m.MarshalTraces(one)
				out = append(out, ItemObs{ID: sp.Name(), Content: digest(b), Container: rc + "/" + sc})
			}
		}
	}
	return out
}

func BuildLogs(prefix string, sh Shape) (plog.Logs, []string) {
	ld := plog.NewLogs()
	var ids []string
	n := 0
	for _, rs := range sh.Res {
		r := ld.ResourceLogs().AppendEmpty()
		fillResource(r.Resource(), rs.Key)
		r.SetSchemaUrl("https://res/" + rs.Key)
		for _, ss := range rs.Scopes {
			s := r.ScopeLogs().AppendEmpty()
			fillScope(s.Scope(), ss.Key)
			s.SetSchemaUrl("https://scope/" + ss.Key)
			for i := 0; i < ss.Items; i++ {
				id := fmt.Sprintf("%s-%d", prefix, n)
				n++
				lr := s.LogRecords().AppendEmpty()
				lr.Body().SetStr(id)
				lr.SetSeverityNumber(plog.SeverityNumberInfo)
				lr.SetSeverityText("INFO")
				lr.SetTimestamp(pcommon.Timestamp(1000 + n))
				lr.Attributes().PutStr("id", id)
				ids = append(ids, id)
			}
		}
	}
	return ld, ids
}

func FlattenLogs(ld plog.Logs) []ItemObs {
	var out []ItemObs
	m := plog.ProtoMarshaler{}
	for i := 0; i < ld.ResourceLogs().Len(); i++ {
		r := ld.ResourceLogs().At(i)
		rc := canonResource(r.Resource(), r.SchemaUrl())
		for j := 0; j < r.ScopeLogs().Len(); j++ {
			s := r.ScopeLogs().At(j)
			sc := canonScope(s.Scope(), s.SchemaUrl())
			for k := 0; k < s.LogRecords().Len(); k++ {
				lr := s.LogRecords().At(k)
				one := plog.NewLogs()
				lr.CopyTo(one.ResourceLogs().AppendEmpty().ScopeLogs().AppendEmpty().LogRecords().AppendEmpty())
				b, _ := m.MarshalLogs(one)
				out = append(out, ItemObs{ID: lr.Body().AsString(), Content: digest(b), Container: rc + "/" + sc})
			}
		}
	}
	return out
}

func BuildMetrics(prefix string, sh Shape) (pmetric.Metrics, []string) {
	md := pmetric.NewMetrics()
	var ids []string
	n := 0
	next := func() string {
		id := fmt.Sprintf("%s-%d", prefix, n)
		n++
		ids = append(ids, id)
		return id
	}
	for _, rs := range sh.Res {
		r := md.ResourceMetrics().AppendEmpty()
		fillResource(r.Resource(), rs.Key)
		r.SetSchemaUrl("https://res/" + rs.Key)
		for _, ss := range rs.Scopes {
			s := r.ScopeMetrics().AppendEmpty()
			fillScope(s.Scope(), ss.Key)
			s.SetSchemaUrl("https://scope/" + ss.Key)
			for _, ms := range ss.Metrics {
				m := s.Metrics().AppendEmpty()
				m.SetName("metric-" + ms.Key)
				m.SetDescription("desc-" + ms.Key)
				m.SetUnit("unit-" + ms.Key)
				m.Metadata().PutStr("origin", "meta-"+ms.Key)
				m.Metadata().PutInt("rev", int64(len(ms.Key)))
				switch ms.Type {
				case pmetric.MetricTypeGauge:
					g := m.SetEmptyGauge()
					for i := 0; i < ms.Points; i++ {
						dp := g.DataPoints().AppendEmpty()
						dp.Attributes().PutStr("id", next())
						dp.SetIntValue(int64(n))
					}
				case pmetric.MetricTypeSum:
					g := m.SetEmptySum()
					g.SetAggregationTemporality(pmetric.AggregationTemporalityCumulative)
					g.SetIsMonotonic(true)
					for i := 0; i < ms.Points; i++ {
						dp := g.DataPoints().AppendEmpty()
						dp.Attributes().PutStr("id", next())
						dp.SetDoubleValue(float64(n) + 0.5)
					}
				case pmetric.MetricTypeHistogram:
					g := m.SetEmptyHistogram()
					g.SetAggregationTemporality(pmetric.AggregationTemporalityDelta)
					for i := 0; i < ms.Points; i++ {
						dp := g.DataPoints().AppendEmpty()
						dp.Attributes().PutStr("id", next())
						dp.SetCount(uint64(n))
						dp.SetSum(float64(n))
						dp.BucketCounts().FromRaw([]uint64{1, uint64(n)})
						dp.ExplicitBounds().FromRaw([]float64{1})
					}
				case pmetric.MetricTypeExponentialHistogram:
					g := m.SetEmptyExponentialHistogram()
					g.SetAggregationTemporality(pmetric.AggregationTemporalityCumulative)
					for i := 0; i < ms.Points; i++ {
						dp := g.DataPoints().AppendEmpty()
						dp.Attributes().PutStr("id", next())
						dp.SetCount(uint64(n))
						dp.SetScale(2)
						dp.Positive().BucketCounts().FromRaw([]uint64{uint64(n)})
					}
				case pmetric.MetricTypeSummary:
					g := m.SetEmptySummary()
					for i := 0; i < ms.Points; i++ {
						dp := g.DataPoints().AppendEmpty()
						dp.Attributes().PutStr("id", next())
						dp.SetCount(uint64(n))
						q := dp.QuantileValues().AppendEmpty()
						q.SetQuantile(0.5)
						q.SetValue(float64(n))
					}
				}
			}
		}
	}
	return md, ids
}

func canonMetricDesc(m pmetric.Metric) string {
	d := fmt.Sprintf("metric(name=%q,desc=%q,unit=%q,type=%s,metadata=%s", m.Name(), m.Description(), m.Unit(), m.Type().String(), canonMap(m.Metadata()))
	switch m.Type() {
	case pmetric.MetricTypeSum:
		d += fmt.Sprintf(",temp=%d,mono=%v", m.Sum().AggregationTemporality(), m.Sum().IsMonotonic())
	case pmetric.MetricTypeHistogram:
		d += fmt.Sprintf(",temp=%d", m.Histogram().AggregationTemporality())
	case pmetric.MetricTypeExponentialHistogram:
		d += fmt.Sprintf(",temp=%d", m.ExponentialHistogram().AggregationTemporality())
	}
	return d + ")"
}

func FlattenMetrics(md pmetric.Metrics) []ItemObs {
	var out []ItemObs
	mar := pmetric.ProtoMarshaler{}
	emit := func(cont string, attrs pcommon.Map, put func(dst pmetric.Metric)) {
		one := pmetric.NewMetrics()
		put(one.ResourceMetrics().AppendEmpty().ScopeMetrics().AppendEmpty().Metrics().AppendEmpty())
		b, _ := mar.MarshalMetrics(one)
		id := ""
		if v, ok := attrs.Get("id"); ok {
			id = v.AsString()
		}
		out = append(out, ItemObs{ID: id, Content: digest(b), Container: cont})
	}
	for i := 0; i < md.ResourceMetrics().Len(); i++ {
		r := md.ResourceMetrics().At(i)
		rc := canonResource(r.Resource(), r.SchemaUrl())
		for j := 0; j < r.ScopeMetrics().Len(); j++ {
			s := r.ScopeMetrics().At(j)
			sc := canonScope(s.Scope(), s.SchemaUrl())
			for k := 0; k < s.Metrics().Len(); k++ {
				m := s.Metrics().At(k)
				cont := rc + "/" + sc + "/" + canonMetricDesc(m)
				switch m.Type() {
				case pmetric.MetricTypeGauge:
					for p := 0; p < m.Gauge().DataPoints().Len(); p++ {
						dp := m.Gauge().DataPoints().At(p)
						emit(cont, dp.Attributes(), func(d pmetric.Metric) { dp.CopyTo(d.SetEmptyGauge().DataPoints().AppendEmpty()) })
					}
				case pmetric.MetricTypeSum:
					for p := 0; p < m.Sum().DataPoints().Len(); p++ {
						dp := m.Sum().DataPoints().At(p)
						emit(cont, dp.Attributes(), func(d pmetric.Metric) { dp.CopyTo(d.SetEmptySum().DataPoints().AppendEmpty()) })
					}
				case pmetric.MetricTypeHistogram:
					for p := 0; p < m.Histogram().DataPoints().Len(); p++ {
						dp := m.Histogram().DataPoints().At(p)
						emit(cont, dp.Attributes(), func(d pmetric.Metric) { dp.CopyTo(d.SetEmptyHistogram().DataPoints().AppendEmpty()) })
					}
				case pmetric.MetricTypeExponentialHistogram:
					for p := 0; p < m.ExponentialHistogram().DataPoints().Len(); p++ {
						dp := m.ExponentialHistogram().DataPoints().At(p)
						emit(cont, dp.Attributes(), func(d pmetric.Metric) {
							dp.CopyTo(d.SetEmptyExponentialHistogram().DataPoints().AppendEmpty())
						})
					}
				case pmetric.MetricTypeSummary:
					for p := 0; p < m.Summary().DataPoints().Len(); p++ {
						dp := m.Summary().DataPoints().At(p)
						emit(cont, dp.Attributes(), func(d pmetric.Metric) { dp.CopyTo(d.SetEmptySummary().DataPoints().AppendEmpty()) })
					}
				}
			}
		}
	}
	return out
}
