package main

import (
	"context"
	"errors"
	"fmt"
	"sort"
	"strings"
	"time"

	"go.opentelemetry.io/collector/client"
	"go.opentelemetry.io/collector/component"
	"go.opentelemetry.io/collector/component/componenttest"
	"go.opentelemetry.io/collector/consumer"
	"go.opentelemetry.io/collector/pdata/plog"
	"go.opentelemetry.io/collector/pdata/pmetric"
	"go.opentelemetry.io/collector/pdata/ptrace"
	"go.opentelemetry.io/collector/processor"
	sdktrace "go.opentelemetry.io/otel/sdk/trace"
	"go.opentelemetry.io/otel/trace"
	"go.uber.org/zap"

	cbp "github.com/open-telemetry/otel-arrow/collector/processor/concurrentbatchprocessor"
	"github.com/open-telemetry/otel-arrow/collector/processor/concurrentbatchprocessor/zzverif/vs"
	"github.com/open-telemetry/otel-arrow/collector/processor/concurrentbatchprocessor/zzverif/vs/vcontext"
)

var errSink = errors.New("sink: injected export failure")

// Scenario is one closed driver program.
type Scenario struct {
	Name    string
	Signal  string // traces | logs | metrics
	S, M    uint32
	Timeout time.Duration
	Keys    []string
	Limit   uint32
	K       uint32
	Early   bool
	NumCPU  int
	Callers []CallerSpec

	SinkFail       bool // every export call: Choose(success, failure)
	SinkHonoursCtx bool // export returns ctx.Err() when its context is done
	SinkDelay      time.Duration // >0: every export call takes this much virtual time (slow downstream)
	SinkDelays     []time.Duration // per export (by order of entry); overrides SinkDelay where present
	FreeTimers     bool
	MaxFires       int
	Tracing        bool
	// ShutdownAt > 0: Shutdown is called at that virtual time (quiescent
	// clock); otherwise as soon as every caller has enqueued or returned.
	ShutdownAt time.Duration
	// ShutdownTimeout > 0: Shutdown is called with a context whose (virtual) deadline is that far away
	ShutdownTimeout time.Duration
	Bound      int // preemption bound override (0: tier default)
	ZeroBound  bool
	QZero      bool // quick tier: bound 0 (thorough: TB / default)
	QB, TB     int // per-tier preemption bound overrides
	Pack       []*Scenario // a pack runs its members one after the other in one worker
}

type CallerSpec struct {
	Label       string
	Reqs        []Shape
	Cancellable bool          // a canceller thread may cancel the caller's context at any point
	CtxOnly     bool          // cancellable context, but nobody cancels it (the monitors only track derivation)
	Deadline    time.Duration // >0: context with a virtual-time deadline
	Metadata    map[string][]string
	ArriveAt    time.Duration // virtual arrival time of the first request
	Gap         time.Duration // virtual pause between requests
	ShareCtx    int           // >0: reuse the context of caller ShareCtx-1
	TraceGroup  int           // >0: the request span is a child of a root span shared by the callers of this group (same trace id, distinct span ids)
}

type ReqState struct {
	IDs        []string
	Expected   map[string]ItemObs
	N          int
	Started    bool
	Returned   bool
	Sent       bool
	Err        error
	ReturnStep int
	ArriveTime int64
	CtxErrAtReturn error
}

type CallerState struct {
	Spec      *CallerSpec
	Idx       int
	Thread    *vs.Thread
	Reqs      []*ReqState
	ReqIdx    int
	sendsBase int
	Ctx       context.Context
	cancel    context.CancelFunc
	Ctrl      any
	Span      trace.Span
	Cancelled bool
	Finished  bool
}

type Export struct {
	Seq        int
	Items      []ItemObs
	Meta       map[string][]string
	Combo      string
	Ctrl       any
	ErrEntry   error
	ErrExit    error
	SpanCtx    trace.SpanContext
	Parent     trace.SpanContext
	Links      []trace.SpanContext
	Err        error
	EnterStep  int
	ExitStep   int
	EnterTime  int64
	Inflight   int
	Done       bool
	ThreadPath string
	Thread     *vs.Thread
}

type World struct {
	sc        *Scenario
	consume   func(ctx context.Context, c *CallerState, r int) error
	shutdown  func(context.Context) error
	exports   []*Export
	logObj    vs.Obj
	callers   []*CallerState
	inflight  map[string]int
	viol      []string
	shutdownReturned bool
	shutdownStep     int
	shutdownCallStep int
	tp        *sdktrace.TracerProvider
	sched     *vs.Sched
	datas     []any
}

func (w *World) violate(prop, format string, args ...any) {
	w.viol = append(w.viol, prop+": "+fmt.Sprintf(format, args...))
}

func comboOf(keys []string, md map[string][]string) string {
	var parts []string
	for _, k := range keys {
		lk := strings.ToLower(k)
		var vals []string
		present := false
		for mk, mv := range md {
			if strings.ToLower(mk) == lk {
				vals = append(vals, mv...)
				present = true
			}
		}
		if !present || len(vals) == 0 {
			parts = append(parts, lk+"=<absent>")
		} else {
			parts = append(parts, fmt.Sprintf("%s=%q", lk, vals))
		}
	}
	sort.Strings(parts)
	return strings.Join(parts, ";")
}

type readSpan interface {
	Parent() trace.SpanContext
	Links() []sdktrace.Link
}

func (w *World) sink(ctx context.Context, items []ItemObs) error {
	s := vs.Cur()
	e := &Export{Seq: len(w.exports), Items: items}
	info := client.FromContext(ctx)
	e.Meta = map[string][]string{}
	for _, k := range w.sc.Keys {
		lk := strings.ToLower(k)
		if v := info.Metadata.Get(lk); v != nil {
			e.Meta[lk] = v
		}
	}
	e.Combo = comboOf(w.sc.Keys, e.Meta)
	e.Ctrl = vcontext.Controller(ctx)
	e.ErrEntry = vcontext.PeekErr(ctx)
	if w.sc.Tracing {
		sp := trace.SpanFromContext(ctx)
		e.SpanCtx = sp.SpanContext()
		if rs, ok := sp.(readSpan); ok {
			e.Parent = rs.Parent()
			for _, l := range rs.Links() {
				e.Links = append(e.Links, l.SpanContext)
			}
		}
	}
	if s != nil {
		e.EnterStep = s.Step()
		e.EnterTime = s.Now()
		e.Thread = vs.Self()
		e.ThreadPath = e.Thread.Path
	}
	w.inflight[e.Combo]++
	e.Inflight = w.inflight[e.Combo]
	w.exports = append(w.exports, e)
	if w.sc.K > 0 && e.Inflight > int(w.sc.K) {
		w.violate("C11", "export #%d entered with %d export calls in flight for combination %q, max_concurrency=%d", e.Seq, e.Inflight, e.Combo, w.sc.K)
	}
	if w.shutdownReturned {
		w.violate("C11", "export #%d entered after Shutdown returned", e.Seq)
	}
	if dl := w.sinkDelay(e.Seq); dl > 0 && s != nil {
		s.SleepUntil(s.Now() + int64(dl))
	}
	var err error
	// one scheduling point inside the export call: arbitrary export latency is
	// "this thread is not scheduled for arbitrarily long"
	if w.sc.SinkFail {
		if vs.Choose(2, "export result") == 1 {
			err = errSink
		}
	} else {
		vs.Touch(&w.logObj, "sink")
	}
	if err == nil && w.sc.SinkHonoursCtx {
		if ce := vcontext.PeekErr(ctx); ce != nil {
			err = ce
		}
	}
	e.ErrExit = vcontext.PeekErr(ctx)
	e.Err = err
	e.Done = true
	if s != nil {
		e.ExitStep = s.Step()
	}
	w.inflight[e.Combo]--
	return err
}

func (w *World) sinkDelay(seq int) time.Duration {
	if seq < len(w.sc.SinkDelays) {
		return w.sc.SinkDelays[seq]
	}
	return w.sc.SinkDelay
}

func nopSettings(tp trace.TracerProvider) processor.Settings {
	ts := componenttest.NewNopTelemetrySettings()
	ts.Logger = zap.NewNop()
	if tp != nil {
		ts.TracerProvider = tp
	}
	return processor.Settings{
		ID:                component.NewID(cbp.NewFactory().Type()),
		TelemetrySettings: ts,
		BuildInfo:         component.NewDefaultBuildInfo(),
	}
}

// build creates the processor under test through the public factory.
func (w *World) build() error {
	sc := w.sc
	f := cbp.NewFactory()
	cfg := f.CreateDefaultConfig().(*cbp.Config)
	cfg.SendBatchSize = sc.S
	cfg.SendBatchMaxSize = sc.M
	cfg.Timeout = sc.Timeout
	cfg.MetadataKeys = sc.Keys
	cfg.MetadataCardinalityLimit = sc.Limit
	cfg.MaxConcurrency = sc.K
	cfg.EarlyReturn = sc.Early
	if err := cfg.Validate(); err != nil {
		return err
	}
	var tp trace.TracerProvider
	if sc.Tracing {
		w.tp = sdktrace.NewTracerProvider()
		tp = w.tp
	}
	set := nopSettings(tp)
	bg := context.Background()
	switch sc.Signal {
	case "traces":
		next, _ := consumer.NewTraces(func(ctx context.Context, td ptrace.Traces) error { return w.sink(ctx, FlattenTraces(td)) })
		p, err := f.CreateTraces(bg, set, cfg, next)
		if err != nil {
			return err
		}
		if err := p.Start(bg, componenttest.NewNopHost()); err != nil {
			return err
		}
		w.shutdown = p.Shutdown
		w.consume = func(ctx context.Context, c *CallerState, r int) error {
			return p.ConsumeTraces(ctx, w.datas[c.Idx*16+r].(ptrace.Traces))
		}
	case "logs":
		next, _ := consumer.NewLogs(func(ctx context.Context, ld plog.Logs) error { return w.sink(ctx, FlattenLogs(ld)) })
		p, err := f.CreateLogs(bg, set, cfg, next)
		if err != nil {
			return err
		}
		if err := p.Start(bg, componenttest.NewNopHost()); err != nil {
			return err
		}
		w.shutdown = p.Shutdown
		w.consume = func(ctx context.Context, c *CallerState, r int) error {
			return p.ConsumeLogs(ctx, w.datas[c.Idx*16+r].(plog.Logs))
		}
	case "metrics":
		next, _ := consumer.NewMetrics(func(ctx context.Context, md pmetric.Metrics) error { return w.sink(ctx, FlattenMetrics(md)) })
		p, err := f.CreateMetrics(bg, set, cfg, next)
		if err != nil {
			return err
		}
		if err := p.Start(bg, componenttest.NewNopHost()); err != nil {
			return err
		}
		w.shutdown = p.Shutdown
		w.consume = func(ctx context.Context, c *CallerState, r int) error {
			return p.ConsumeMetrics(ctx, w.datas[c.Idx*16+r].(pmetric.Metrics))
		}
	default:
		return fmt.Errorf("unknown signal %q", sc.Signal)
	}
	return nil
}

func newWorld(sc *Scenario) *World {
	w := &World{sc: sc, inflight: map[string]int{}, datas: make([]any, 16*len(sc.Callers))}
	for i := range sc.Callers {
		cs := &CallerState{Spec: &sc.Callers[i], Idx: i}
		for r, sh := range sc.Callers[i].Reqs {
			prefix := fmt.Sprintf("%s%d", sc.Callers[i].Label, r)
			rs := &ReqState{Expected: map[string]ItemObs{}}
			var obs []ItemObs
			switch sc.Signal {
			case "traces":
				td, ids := BuildTraces(prefix, sh)
				rs.IDs = ids
				obs = FlattenTraces(td)
				w.datas[i*16+r] = td
			case "logs":
				ld, ids := BuildLogs(prefix, sh)
				rs.IDs = ids
				obs = FlattenLogs(ld)
				w.datas[i*16+r] = ld
			case "metrics":
				md, ids := BuildMetrics(prefix, sh)
				rs.IDs = ids
				obs = FlattenMetrics(md)
				w.datas[i*16+r] = md
			}
			rs.N = len(rs.IDs)
			for _, o := range obs {
				rs.Expected[o.ID] = o
			}
			cs.Reqs = append(cs.Reqs, rs)
		}
		w.callers = append(w.callers, cs)
	}
	return w
}

// Main is the body of thread 0.
func (w *World) Main() {
	sc := w.sc
	w.sched = vs.Cur()
	if err := w.build(); err != nil {
		vs.HarnessFail("scenario %s: build: %v", sc.Name, err)
	}
	// contexts
	groupRoot := map[int]context.Context{}
	for _, c := range w.callers {
		var ctx context.Context = context.Background()
		if g := c.Spec.TraceGroup; g > 0 && sc.Tracing {
			if groupRoot[g] == nil {
				groupRoot[g], _ = w.tp.Tracer("driver").Start(context.Background(), fmt.Sprintf("fan-out-%d", g))
			}
			ctx = groupRoot[g]
		}
		if c.Spec.ShareCtx > 0 {
			o := w.callers[c.Spec.ShareCtx-1]
			c.Ctx, c.Ctrl, c.Span = o.Ctx, o.Ctrl, o.Span
			continue
		}
		if c.Spec.Metadata != nil {
			ctx = client.NewContext(ctx, client.Info{Metadata: client.NewMetadata(c.Spec.Metadata)})
		}
		if c.Spec.Cancellable || c.Spec.CtxOnly {
			ctx, c.cancel = vcontext.WithCancel(ctx)
			c.Ctrl = vcontext.Controller(ctx)
		} else if c.Spec.Deadline > 0 {
			ctx, c.cancel = vcontext.WithTimeout(ctx, c.Spec.Deadline)
			c.Ctrl = vcontext.Controller(ctx)
		}
		if sc.Tracing {
			ctx, c.Span = w.tp.Tracer("driver").Start(ctx, "request-"+c.Spec.Label)
		}
		c.Ctx = ctx
	}
	for _, c := range w.callers {
		c := c
		c.Thread = vs.GoLabel("caller-"+c.Spec.Label, func() { w.callerBody(c) })
		if c.Spec.Cancellable {
			vs.GoLabel("cancel-"+c.Spec.Label, func() {
				if vs.Choose(2, "cancel "+c.Spec.Label+"?") == 1 {
					c.cancel()
					c.Cancelled = true
				}
			})
		}
	}
	vs.GoLabel("shutdown", func() {
		if sc.ShutdownAt > 0 {
			vs.Cur().SleepUntil(int64(sc.ShutdownAt))
		}
		vs.WaitUntil("all callers enqueued or returned", func() bool {
			for _, c := range w.callers {
				if c.Finished {
					continue
				}
				if c.ReqIdx == len(c.Reqs)-1 && c.Thread.Sends > c.sendsBase {
					continue
				}
				// a caller blocked on the full input channel counts as well: Shutdown
				// may find producers waiting for room (they are admitted by the drain)
				if c.ReqIdx == len(c.Reqs)-1 && c.Reqs[c.ReqIdx].Started && vs.Cur().ParkedOnSend(c.Thread) {
					continue
				}
				return false
			}
			return true
		})
		w.shutdownCallStep = vs.Cur().Step()
		sctx := context.Background()
		if sc.ShutdownTimeout > 0 {
			var cancel context.CancelFunc
			sctx, cancel = vcontext.WithTimeout(sctx, sc.ShutdownTimeout)
			defer cancel()
		}
		_ = w.shutdown(sctx)
		w.shutdownReturned = true
		w.shutdownStep = vs.Cur().Step()
		w.atShutdownReturn()
	})
}

func (w *World) callerBody(c *CallerState) {
	s := vs.Cur()
	if c.Spec.ArriveAt > 0 {
		s.SleepUntil(int64(c.Spec.ArriveAt))
	}
	for r, rs := range c.Reqs {
		if r > 0 && c.Spec.Gap > 0 {
			s.SleepUntil(s.Now() + int64(c.Spec.Gap))
		}
		c.ReqIdx = r
		c.sendsBase = c.Thread.Sends
		rs.Started = true
		rs.ArriveTime = s.Now()
		err := w.consume(c.Ctx, c, r)
		rs.Err = err
		rs.Sent = c.Thread.Sends > c.sendsBase
		rs.Returned = true
		rs.ReturnStep = s.Step()
		rs.CtxErrAtReturn = vcontext.PeekErr(c.Ctx)
		w.atReturn(c, rs)
	}
	c.Finished = true
}
