#!/bin/bash
# build_root.sh <workdir> <engine> [go build flags]: builds /verif/engines/<engine> as a virtual package inside the root module
set -euo pipefail
. /verif/lib/env.sh
W=$1; ENG=$2; shift 2
mkdir -p "$W"
python3 - "$W" "$ENG" <<'PY'
import json,os,sys
W,ENG=sys.argv[1],sys.argv[2]
V=os.environ['VERIF']; R=os.environ['REPO']
rep={}
for f in os.listdir(f'{V}/engines/{ENG}'):
    if f.endswith('.go') and not f.endswith('_test.go'):
        rep[f'{R}/zzverif/{ENG}/{f}']=f'{V}/engines/{ENG}/{f}'
json.dump({'Replace':rep},open(f'{W}/ov_{ENG}.json','w'),indent=1)
PY
cd $REPO
go build -overlay "$W/ov_$ENG.json" "$@" -o "$W/$ENG" ./zzverif/$ENG
