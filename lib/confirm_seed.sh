#!/bin/bash
# confirm_seed.sh <seed-out-dir> <module-dir-relative-to-repo> <package-dir-relative-to-repo> <name>
# Confirms a seeded change in a scratch worktree: suite passes with it, demo fails with it, demo passes without it.
set -uo pipefail
. /verif/lib/env.sh
SRC=$1; MOD=$2; PKG=$3; NAME=$4
WT=/tmp/confirm/$NAME
LOG=/tmp/confirm/$NAME.log
mkdir -p /tmp/confirm; rm -rf "$WT"; : > "$LOG"
git -C /repo worktree add --detach "$WT" HEAD >>"$LOG" 2>&1 || exit 2
res() { echo "$1" | tee -a "$LOG"; }
cd "$WT"
if ! git apply "$SRC/patch.diff" >>"$LOG" 2>&1; then res "RESULT $NAME patch-does-not-apply"; git -C /repo worktree remove --force "$WT"; exit 1; fi
(cd "$WT/$MOD" && timeout 1500 go test -vet=off -count=1 ./... >>"$LOG" 2>&1); SUITE=$?
DEMOS=$(ls "$SRC"/*_test.go 2>/dev/null)
TESTS=$(grep -ho '^func \(Test[A-Za-z0-9_]*\)' $DEMOS | sed 's/^func //' | paste -sd'|')
cp $DEMOS "$WT/$PKG/"
(cd "$WT/$PKG" && timeout 900 go test -vet=off -count=1 -run "^($TESTS)\$" . >>"$LOG" 2>&1); WITH=$?
git apply -R "$SRC/patch.diff" >>"$LOG" 2>&1
(cd "$WT/$PKG" && timeout 900 go test -vet=off -count=1 -run "^($TESTS)\$" . >>"$LOG" 2>&1); WITHOUT=$?
cd /; git -C /repo worktree remove --force "$WT" >>"$LOG" 2>&1
res "RESULT $NAME suite_with_patch=$SUITE demo_with_patch=$WITH demo_without_patch=$WITHOUT tests=$TESTS"
