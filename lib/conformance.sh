#!/bin/bash
# Binding evidence for the rewrite and the scheduler model (DESIGN.md 3.1):
#  (i)  the batch processor's own tests run against the rewritten sources with vs in native pass-through mode
#  (ii) vsconf: micro-programs natively vs exhaustively under vs (and with/without fingerprint pruning)
set -euo pipefail
. /verif/lib/env.sh
W=/verif/.work/conf.$$
trap 'rm -rf "$W"' EXIT
/verif/lib/build_bpx.sh "$W"
cd $BPMOD
go build -overlay "$W/ov.json" -o "$W/vsconf" ./zzverif/vsconf
"$W/vsconf" | tail -3
VS_MODE=native go test -overlay "$W/ov.json" -vet=off -count=1 . 2>&1 | tail -3
echo conformance ok
