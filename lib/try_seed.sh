#!/bin/bash
# try_seed.sh <patch.diff> <property>... : apply a seeded change to /repo, run the checks, undo it.
set -uo pipefail
PATCH=$1; shift
cd /repo
if ! git diff --quiet; then echo "repo not clean"; exit 2; fi
git apply "$PATCH" || { echo "patch does not apply"; exit 2; }
trap 'git -C /repo checkout -- . ' EXIT
for p in "$@"; do
  echo "--- $p on $(basename $(dirname $PATCH))"
  /verif/check $p ${TRY_ARGS:-} 2>&1 | grep -v "^note:" | tail -${TRY_TAIL:-6}
  echo "exit=$?"
done
