#!/bin/bash
# try_seed_wt.sh <seed-dir> <property>... : run the quick checks against a scratch worktree of /repo
# with the seeded change applied (VERIF_REPO); /repo and /verif/evidence stay untouched.
set -uo pipefail
. /verif/lib/env.sh
SRC=$(readlink -f "$1"); shift
NAME=$(echo "$SRC" | sed "s#^/tmp/##; s#^seed5/#r5-#; s#^/verif/seeded/##; s#/out/#-#; s#/#-#g")
WT=/tmp/tryseed/$NAME
mkdir -p /tmp/tryseed; flock /tmp/tryseed/.lock git -C /repo worktree remove --force "$WT" >/dev/null 2>&1; rm -rf "$WT"
flock /tmp/tryseed/.lock git -C /repo worktree add --detach "$WT" HEAD >/dev/null 2>&1 || { echo "cannot create worktree"; exit 2; }
trap 'flock /tmp/tryseed/.lock git -C /repo worktree remove --force "$WT" >/dev/null 2>&1' EXIT
git -C "$WT" apply "$SRC/patch.diff" || { echo "NOAPPLY $NAME"; exit 2; }
for p in "$@"; do
  VERIF_REPO=$WT VERIF_EVIDENCE_DIR=/tmp/tryseed/ev-$NAME VERIF_REPLAY_DIR=/tmp/tryseed/rp-$NAME timeout 3000 /verif/check $p ${TRY_ARGS:-} > /tmp/tryseed/$NAME-$p.log 2>&1; rc=$?
  if [ $rc -eq 1 ] && grep -q "^VIOLATION property=$p" /tmp/tryseed/$NAME-$p.log; then echo "$NAME CAUGHT $p"; else echo "$NAME MISSED $p rc=$rc"; fi
done
