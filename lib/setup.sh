#!/bin/bash
# One-time setup after a fresh restore: build the tools and warm the build cache.
set -euo pipefail
. /verif/lib/env.sh
mkdir -p /verif/bin /verif/.work /verif/evidence /verif/replay
(cd /verif/engines/vsrewrite && go build -o /verif/bin/vsrewrite .)
W=/verif/.work/setup.$$
/verif/lib/build_bpx.sh "$W"
"$W/bpx" -list >/dev/null
/verif/lib/build_root.sh "$W" streammc
/verif/lib/build_obf.sh "$W"
# warm the -race build cache used by the C16 race pass
/verif/lib/build_root.sh "$W/race" streammc -race
rm -rf "$W"
# conformance of the scheduler model and of the source rewrite: the package's own
# tests use wall-clock timeouts, so one failed attempt under load is retried
ok=0
for attempt in 1 2 3; do
  if /verif/lib/conformance.sh; then ok=1; break; fi
  echo "conformance attempt $attempt failed, retrying" >&2
done
[ $ok -eq 1 ] || { echo "conformance failed three times" >&2; exit 1; }
echo setup ok
