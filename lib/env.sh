# common environment for every check
export GOFLAGS=-mod=mod GOPROXY=off GOSUMDB=off GOTOOLCHAIN=local
export VERIF=/verif
export REPO=${VERIF_REPO:-/repo}
export BPMOD=$REPO/collector/processor/concurrentbatchprocessor
export BPIMP=github.com/open-telemetry/otel-arrow/collector/processor/concurrentbatchprocessor
