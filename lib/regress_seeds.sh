#!/bin/bash
# regress_seeds.sh [seed-id-regexp]: every kept seeded change must still be reported by
# the quick tier of the check named in its meta.json. Works on a scratch worktree
# (VERIF_REPO), never on /repo. Output: one line per seed, CAUGHT / MISSED / NOAPPLY.
set -uo pipefail
. /verif/lib/env.sh
RE=${1:-.}
WT=/tmp/regress/repo
OUT=/tmp/regress/results.txt
mkdir -p /tmp/regress; : > "$OUT"
git -C /repo worktree remove --force "$WT" >/dev/null 2>&1
git -C /repo worktree add --detach "$WT" HEAD >/dev/null 2>&1 || { echo "cannot create worktree"; exit 2; }
for d in /verif/seeded/*/; do
  id=$(basename "$d")
  [[ "$id" =~ $RE ]] || continue
  [ -f "$d/patch.diff" ] || continue
  prop=$(python3 -c "import json,re,sys; m=json.load(open('$d/meta.json')); print(re.search(r'C\d\d', m['caught_by']['check']).group(0))" 2>/dev/null)
  [ -z "$prop" ] && prop=$(echo "$id" | grep -o 'C[0-9][0-9]' | head -1)
  git -C "$WT" checkout -- . ; git -C "$WT" clean -fdq
  if ! git -C "$WT" apply "$d/patch.diff" 2>/dev/null; then echo "$id NOAPPLY" | tee -a "$OUT"; continue; fi
  VERIF_REPO=$WT VERIF_EVIDENCE_DIR=/tmp/regress/ev VERIF_REPLAY_DIR=/tmp/regress/rp timeout 1800 /verif/check $prop ${REGRESS_ARGS:--j 8} > /tmp/regress/$id.log 2>&1; rc=$?
  if [ $rc -eq 1 ] && grep -q "^VIOLATION property=$prop" /tmp/regress/$id.log; then echo "$id CAUGHT $prop" | tee -a "$OUT"
  else echo "$id MISSED $prop rc=$rc" | tee -a "$OUT"; fi
done
git -C /repo worktree remove --force "$WT" >/dev/null 2>&1
echo FINISHED >> "$OUT"
