#!/usr/bin/env python3
"""Regenerates /verif/MANIFEST.json from the table below (single source of truth)."""
import json
props=[json.loads(l)['id'] for l in open('/verif/properties.jsonl')]

BPX_NOTE=("Trusted base: Go compiler/runtime, go/ast printing of the syntactically rewritten package, the vs model of channels/select/"
 "mutex/waitgroup/semaphore/timer/context (conformance-tested against the native runtime), pdata and the OTel SDK running natively. "
 "Scheduling points are sync operations only; plain memory accesses are assumed race free and are checked by the separate free-running "
 "-race pass of C11. Shutdown is called after every caller has enqueued or returned (collector shutdown order).")

def bpx(pid, text, ref):
    return {
     "property_id": pid,
     "quick_cmd": f"./check {pid} --tier quick",
     "thorough_cmd": f"./check {pid} --tier thorough",
     "evidence_file": f"/verif/evidence/{pid}.json",
     "replay_cmd_template": f"./check {pid} --replay {{path}}",
     "engine": "bpx",
     "level_claimed": {"category": "model_checking", "text": text, "design_ref": ref},
     "level_note": BPX_NOTE,
     "technique": "stateless model checking of the implementation: exhaustive DFS over goroutine interleavings, select arms, timer firings, export outcomes and cancellation points under a controlled scheduler, preemption-bounded, pruned by Mazurkiewicz-trace fingerprints",
    }

checks=[
 bpx("C05","Every interleaving (within the preemption bound) of small closed drivers - merge, split, merge+split, timer flush, shutdown with buffered/queued items, immediate modes - plus two exhaustive sequential layers (every small request shape x every send_batch_max_size; every pair of sequential request sizes x (S,M)) is executed on the real processor; at the end of each execution the multiset of delivered item ids, each item's content digest and its resource/scope/metric identity (incl. schema URLs) are compared with what was submitted. Executions that end stuck (deadlock, livelock) are final states: items of accepted requests that were never passed on are reported as lost. Idle timer ticks followed by size-triggered flushes, immediate modes for logs and metrics.","DESIGN.md 4 C05, appendix B"),
 bpx("C06","Same executions with every success/failure assignment to export calls and a canceller thread able to fire at any point: at the moment Consume returns, its items must have been through completed exports and its result must equal the conjunction of their outcomes; a caller whose context is done is never parked on a disabled operation (state invariant, no wall clock); cancelled requests are delivered at most once; any state with a caller stuck is reported; a done-context caller waiting behind a lock whose holder is itself parked on a wait is not prompt (lock holders are tracked); sync.Pool is modelled deterministically (maximal reuse) so recycled per-request objects are explored; merge/split grid of two callers; cancellation while blocked on the full input channel and with metadata keys.","DESIGN.md 4 C06"),
 bpx("C09","Size limits on every export of every execution; the size-trigger clause is checked on the shard timeline reconstructed from the scheduler's channel log; the deadline clause under a quiescent virtual clock over a grid of (S,M,T) configurations (incl. max > size with remainders in [size,max), max == size, zeros) x request-size sequences x arrival times before and after idle ticks.","DESIGN.md 4 C09"),
 bpx("C10","All interleavings of concurrent first arrivals of new metadata combinations (Load-miss / Lock / check / LoadOrStore window) for limits 0,1,2, mixed-case keys, empty vs absent vs multi-valued values: no export mixes combinations, exporter-visible client metadata agrees with the items, admitted combinations <= limit, refused requests get a permanent error and nothing exported; a refused combination that comes back stays refused; a racing first arrival followed by a new combination whose batch merges two request contexts (shard-owned export context).","DESIGN.md 4 C10"),
 bpx("C11","In every explored state in-flight exports per combination <= max_concurrency; at the moment Shutdown returns every enqueued item has been exported, no export is in flight and no processor goroutine is alive; every deadlock state, every livelock (run still going at 10x the step cap), every runaway thread (30 CPU-seconds or 12 GB without a scheduling point, confirmed in a fresh process) and every panic is reported. The data-race clause is decided by a free-running -race pass of the same drivers (dynamic detector, sampled schedules - see level_note).","DESIGN.md 4 C11"),
 bpx("C18","Drivers with 2-3 callers holding distinct (or shared) span-carrying contexts, cancellers for subsets of callers, a virtual-time deadline variant, metadata keys, and a sink that honours its context: a batch fed by >= 2 request contexts must run under a context derived from no caller's, with links both ways; a single-context batch is a child of its request; no caller ever receives another caller's context error.","DESIGN.md 4 C18"),
]
SMC_NOTE=("Trusted base: Go compiler/runtime, pdata accessors, Arrow's ipc.Reader as the independent wire reader, the otlpcanon normal form "
 "(only the documented normalisations). Inputs come from the archetype alphabets of engines/streammc/arch.go and wild.go (one input per shortcut "
 "visible in the encoder/decoder; small-scope hypothesis): the check is exhaustive over that finite space, not over all OTLP values.")

def smc(pid, text, ref, technique="explicit-state search: exhaustive enumeration of (options, batch history) units over a fixed archetype alphabet on the real Producer/Consumer, reference-model oracle on every transition"):
    return {
     "property_id": pid,
     "quick_cmd": f"./check {pid} --tier quick",
     "thorough_cmd": f"./check {pid} --tier thorough",
     "evidence_file": f"/verif/evidence/{pid}.json",
     "replay_cmd_template": f"./check {pid} --replay {{path}}",
     "engine": "streammc" if pid!="C17" else "obfmc",
     "level_claimed": {"category": "model_checking", "text": text, "design_ref": ref},
     "level_note": SMC_NOTE,
     "technique": technique,
    }

RT="every batch of two complete single-batch products (P1: resource x scope x multisets of <=2 record archetypes; P2: pairs of resources x pairs of scopes x 4 container layouts) on a fresh stream, every history of depth 3 (thorough 4) over a 12-16 letter alphabet in which each letter moves the stream through a different schema-evolution transition, u8-limited dictionaries under three reset thresholds, pipelined streams (all batches encoded before any is decoded), batches following a refused one, type-mix and prefix-ramp letters, and a long stream of large batches on one default consumer (cumulative Arrow memory several times the 70 MiB limit); after every transition the decoded batch must equal the encoded one as a multiset of canonical (resource, scope, record) triples over exactly the data-model fields"
checks += [
 smc("C01","Traces: "+RT+".","DESIGN.md 4 C01"),
 smc("C02","Logs: "+RT+" (bodies of every AnyValue type, the same scope under several resources).","DESIGN.md 4 C02"),
 smc("C03","Metrics: "+RT+" (all five types and empty, zero counts, all-zero bucket lists, present-but-zero sum/min/max, exemplars).","DESIGN.md 4 C03"),
 smc("C04","The full product of the public producer options (5 dictionary limits x 4 reset thresholds x zstd x 7 span orders x 4 x 5 attribute orders = 5,600 configurations) over grouping histories (equal key/value, event-name and link-trace-id groups with non-consecutive parents), attribute orders for logs and metrics, and ramp histories that drive every dictionary column through upgrade, overflow and reset; a default consumer must decode every batch to what was encoded; also the With*InitDictIndex options before/after the limit option, u32/u64 limits widening 16->32 bits in mid-stream, prefix ramps (a later batch contains every earlier value), batches in which every dictionary column of an attribute record crosses its width together, and every attribute ordering over type-mix letters (one key, values of all types under consecutive parents). Observer events (upgrade/overflow/reset) are counted in the evidence as a vacuity guard.","DESIGN.md 4 C04"),
 smc("C07","faultmc: for every short well-formed prefix, every single fault and (on a reduced menu in quick) every pair of faults of a finite payload-level menu (relabel to 6-11 types, drop, duplicate adjacent/at end, swap, reverse, nil/empty record, fresh/stale schema id, no payloads) is applied to the next batch and fed to each of TracesFrom/LogsFrom/MetricsFrom on a consumer replayed to that prefix: no panic, and success only if no main record present in the batch was discarded (item count >= rows of the main payloads).","DESIGN.md 4 C07",
     "exhaustive fault enumeration: every fault (set) of a finite menu at every reachable stream state of a bounded history, on the real consumer"),
 smc("C08","Producer-only runs of every in-domain and out-of-domain archetype (invalid UTF-8, timestamps >= 2^63, nesting depth 17/40, NaN/Inf, 70 kB values, 300 attributes) alone, in pairs, in every ordered pair of single-record batches (zero-first-then-non-zero), in depth-3 histories, in u8 ramp histories incl. a single batch exceeding the limit, and id-width edges (65,535/65,536/65,537 items, resources, scopes, event groups) followed by normal batches: never a panic; oversized batches must be refused with an error.","DESIGN.md 4 C08"),
 smc("C12","Reference model of the framing fed only with BatchArrowRecords fields: batch ids count up; first payload is the main record; each type at most once; related payloads non-empty; schema id -> (type, schema) is a function and retired ids never return; per schema id the payload bytes are read by a separate ipc.Reader and a message-level scan (Schema first, then DictionaryBatch*, exactly one RecordBatch). Over per-signal histories, interleaved signals on one producer, dictionary resets under an unchanged schema, zstd on/off.","DESIGN.md 4 C12"),
 smc("C13","(i) dictmc: explicit-state BFS on the real transform.DictionaryField step function with an environment modelling record discard/rebuild, over 32 (limit, initial width, threshold) configurations and cardinalities straddling 255, 65,535 and 2^32: a record is only ever sent with cardinality <= min(limit, index capacity), and never needs more than 5 rebuilds; (ii) end to end: every dictionary array held by an independent reader after each payload (nested ones included) is checked against the configured limit and its index width over ramp histories, long streams of unbounded-cardinality columns, the implicit default limit (180,000 fresh values without any limit option), u32/u64 limits, and the initial-index options in both orders.","DESIGN.md 4 C13"),
 smc("C14","limitmc: for every history of depth <= 2 over an 8-letter alphabet per signal, zstd on/off, the complete ladder of limits 64*k from 0 up to the first limit at which nothing is refused (every in-use value and request is a multiple of 64 - asserted on every published value and LimitError), plus L+1/L+63 cross-checks at every ladder step, the default limit, and a batch whose IPC message declares a 2^50-byte body under a 1 MiB limit (must be refused with the memory-limit error before any allocation): no panic; a batch on a healthy stream is decoded to the same telemetry as without limit or refused with errors.Is(err, ErrConsumerMemoryLimit); published arrow_memory_inuse <= limit after every call and 0 after Close; decodability is monotone in the limit for equal prefix outcomes.","DESIGN.md 4 C14",
     "exhaustive enumeration of a complete limit ladder (argued complete by 64-byte granularity, re-asserted at run time) x bounded histories on the real consumer"),
 smc("C15","Producer with a CheckedAllocator over option configurations x histories (schema updates, overflow/reset rebuilds, refused batch in the middle, mixed signals); every value is encoded twice in a row and marked read-only (pdata panics on any write): OTLP bytes of the input identical before/after each call, CurrentAlloc()==0 after Close.","DESIGN.md 4 C15"),
 smc("C16","pairmc: all interleavings at API-call granularity (70 per pair, 34,650 per triple in thorough) of the encode/decode calls of 2-3 independent streams with different options on one goroutine: every call's observation (payload digests, decoded content) equals the stream's solo run, including consumers constructed with their own options (WithMemoryLimit) before and after default ones. The data-race clause is decided by a free-running -race build of the same programs (one goroutine per stream): a dynamic detector, see level_note.","DESIGN.md 4 C16",
     "exhaustive enumeration of call-granularity interleavings of independent instances + free-running race detector pass"),
 smc("C17","obfmc: every (mode in {encrypt_all, list{secret}, list{secret,missing}}, 4 key seeds incl. all-zero, 3-document life of one processor instance) over 14 attribute archetypes (all 7 value types, nesting, listed/unlisted keys, empty/one-byte/non-ASCII strings) and 3-8 container shapes for the three signals, plus all strings of <= 3 characters over a 5-character alphabet: token-by-token comparison of input and output (structure, order, numbers, ids byte-equal; non-targeted attributes unchanged; substitutes length-preserving, a function of the original and injective per instance).","DESIGN.md 4 C17",
     "bounded-exhaustive enumeration of documents x modes x keys x instance lifetimes on the real processor"),
]
for c in checks:
    if c["property_id"]=="C16":
        c["level_note"]=SMC_NOTE+" The race clause relies on the Go race detector applied to sampled schedules of free-running goroutines; because distinct instances never synchronise with each other, a conflicting access is a race in every schedule in which both accesses occur."
    if c["property_id"]=="C17":
        c["level_note"]="Trusted base: Go compiler/runtime, pdata, the feistel library running for real; crypto/rand.Reader is replaced by a seeded reader (the key is owned by the harness). Documents come from the grammar in engines/obfmc/main.go (small-scope hypothesis)."
claimed={c["property_id"] for c in checks}
m={
 "version":1,
 "setup_cmd":"/verif/lib/setup.sh",
 "hooks":{
  "guard":"verif",
  "enable":"no hook commits exist: harness sources (virtual packages under <module>/zzverif/) and syntactically rewritten product sources are injected with `go build -overlay`, generated on every run from /repo's working tree (lib/build_bpx.sh, lib/build_root.sh)",
  "baseline_off_cmd":"for m in . ./collector/cmd/otelarrowcol ./collector/processor/concurrentbatchprocessor ./collector/processor/obfuscationprocessor; do (cd /repo/$m && GOFLAGS=-mod=mod GOPROXY=off GOSUMDB=off go test -json -vet=off -count=1 -timeout 25m ./...); done",
  "source_commits":[],
  "add_only":True
 },
 "engines":[
  {"name":"vs","path":"engines/vs","serves_properties":["C05","C06","C09","C10","C11","C18"],"kind_free_text":"hand-written cooperative scheduler + DFS explorer with preemption bounding and trace-fingerprint pruning; shims for sync/time/context/runtime/semaphore"},
  {"name":"vsrewrite","path":"engines/vsrewrite","serves_properties":["C05","C06","C09","C10","C11","C18"],"kind_free_text":"go/ast rewriter: go/select/send/recv/close -> vs calls, imports -> shims; applied to the working tree on every run"},
  {"name":"bpx","path":"engines/bpx","serves_properties":["C05","C06","C09","C10","C11","C18"],"kind_free_text":"closed drivers over the public batch processor API, sink, monitors/oracles, evidence and replay artefacts"},
  {"name":"streammc","path":"engines/streammc","serves_properties":["C01","C02","C03","C04","C07","C08","C12","C13","C14","C15","C16"],"kind_free_text":"explicit-state search over batch histories of the real Producer/Consumer with monitors (roundtrip vs otlpcanon, nopanic, framing, dictsize, alloc, immutable) and the sub-engines faultmc, limitmc, pairmc, dictmc"},
  {"name":"obfmc","path":"engines/obfmc","serves_properties":["C17"],"kind_free_text":"bounded-exhaustive document enumeration for the obfuscation processor with a token-level oracle"},
 ],
 "checks":checks,
 "notes":"14 fix: commits in /repo (git log --grep '^fix:'), each recorded in known_findings.json as fixed: with the failing input; see DESIGN.md section 5. No property is declared not applicable.",
 "not_applicable":[{"property_id":p,"reason":"check not built yet"} for p in props if p not in claimed],
}
json.dump(m,open('/verif/MANIFEST.json','w'),indent=1)
print("claimed",sorted(claimed))
