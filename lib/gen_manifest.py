#!/usr/bin/env python3
"""Regenerates /verif/MANIFEST.json from the table below (single source of truth)."""
import json
props=[json.loads(l)['id'] for l in open('/verif/properties.jsonl')]

BPX_NOTE=("Trusted base: Go compiler/runtime, go/ast printing of the syntactically rewritten package, the vs model of channels/select/"
 "mutex/waitgroup/semaphore/timer/context (conformance-tested against the native runtime), pdata and the OTel SDK running natively. "
 "Scheduling points are sync operations only; plain memory accesses are assumed race free and are checked by the separate free-running "
 "-race pass of C11. Shutdown is called after every caller has enqueued or returned (collector shutdown order).")

def bpx(pid, text, ref):
    return {
     "property_id": pid,
     "quick_cmd": f"./check {pid} --tier quick",
     "thorough_cmd": f"./check {pid} --tier thorough",
     "evidence_file": f"/verif/evidence/{pid}.json",
     "replay_cmd_template": f"./check {pid} --replay {{path}}",
     "engine": "bpx",
     "level_claimed": {"category": "model_checking", "text": text, "design_ref": ref},
     "level_note": BPX_NOTE,
     "technique": "stateless model checking of the implementation: exhaustive DFS over goroutine interleavings, select arms, timer firings, export outcomes and cancellation points under a controlled scheduler, preemption-bounded, pruned by Mazurkiewicz-trace fingerprints",
    }

checks=[
 bpx("C05","Every interleaving (within the preemption bound) of small closed drivers - merge, split, merge+split, timer flush, shutdown with buffered/queued items, immediate modes - plus two exhaustive sequential layers (every small request shape x every send_batch_max_size; every pair of sequential request sizes x (S,M)) is executed on the real processor; at the end of each execution the multiset of delivered item ids, each item's content digest and its resource/scope/metric identity (incl. schema URLs) are compared with what was submitted.","DESIGN.md 4 C05, appendix B"),
 bpx("C06","Same executions with every success/failure assignment to export calls and a canceller thread able to fire at any point: at the moment Consume returns, its items must have been through completed exports and its result must equal the conjunction of their outcomes; a caller whose context is done is never parked on a disabled operation (state invariant, no wall clock); cancelled requests are delivered at most once; any state with a caller stuck is reported.","DESIGN.md 4 C06"),
 bpx("C09","Size limits on every export of every execution; the size-trigger clause is checked on the shard timeline reconstructed from the scheduler's channel log; the deadline clause under a quiescent virtual clock over a grid of (S,M,T) configurations x request-size sequences x arrival times.","DESIGN.md 4 C09"),
 bpx("C10","All interleavings of concurrent first arrivals of new metadata combinations (Load-miss / Lock / check / LoadOrStore window) for limits 0,1,2, mixed-case keys, empty vs absent vs multi-valued values: no export mixes combinations, exporter-visible client metadata agrees with the items, admitted combinations <= limit, refused requests get a permanent error and nothing exported.","DESIGN.md 4 C10"),
 bpx("C11","In every explored state in-flight exports per combination <= max_concurrency; at the moment Shutdown returns every enqueued item has been exported, no export is in flight and no processor goroutine is alive; every deadlock state and every panic is reported. The data-race clause is decided by a free-running -race pass of the same drivers (dynamic detector, sampled schedules - see level_note).","DESIGN.md 4 C11"),
 bpx("C18","Drivers with 2-3 callers holding distinct (or shared) span-carrying contexts, cancellers for subsets of callers, a virtual-time deadline variant, metadata keys, and a sink that honours its context: a batch fed by >= 2 request contexts must run under a context derived from no caller's, with links both ways; a single-context batch is a child of its request; no caller ever receives another caller's context error.","DESIGN.md 4 C18"),
]
claimed={c["property_id"] for c in checks}
m={
 "version":1,
 "setup_cmd":"/verif/lib/setup.sh",
 "hooks":{
  "guard":"verif",
  "enable":"no hook commits exist: harness sources (virtual packages under <module>/zzverif/) and syntactically rewritten product sources are injected with `go build -overlay`, generated on every run from /repo's working tree (lib/build_bpx.sh, lib/build_root.sh)",
  "baseline_off_cmd":"for m in . ./collector/cmd/otelarrowcol ./collector/processor/concurrentbatchprocessor ./collector/processor/obfuscationprocessor; do (cd /repo/$m && GOFLAGS=-mod=mod GOPROXY=off GOSUMDB=off go test -json -vet=off -count=1 -timeout 25m ./...); done",
  "source_commits":[],
  "add_only":True
 },
 "engines":[
  {"name":"vs","path":"engines/vs","serves_properties":["C05","C06","C09","C10","C11","C18"],"kind_free_text":"hand-written cooperative scheduler + DFS explorer with preemption bounding and trace-fingerprint pruning; shims for sync/time/context/runtime/semaphore"},
  {"name":"vsrewrite","path":"engines/vsrewrite","serves_properties":["C05","C06","C09","C10","C11","C18"],"kind_free_text":"go/ast rewriter: go/select/send/recv/close -> vs calls, imports -> shims; applied to the working tree on every run"},
  {"name":"bpx","path":"engines/bpx","serves_properties":["C05","C06","C09","C10","C11","C18"],"kind_free_text":"closed drivers over the public batch processor API, sink, monitors/oracles, evidence and replay artefacts"},
 ],
 "checks":checks,
 "notes":"fix: commits in /repo: 73bb29b2 (C05 schema URLs on split), 6e6e046d (C18 allSameContext), cf238688 (C11 wait group order); see known_findings.json and DESIGN.md section 5.",
 "not_applicable":[{"property_id":p,"reason":"check not built yet (work in progress; see DESIGN.md section 4 for the plan)"} for p in props if p not in claimed],
}
json.dump(m,open('/verif/MANIFEST.json','w'),indent=1)
print("claimed",sorted(claimed))
