#!/bin/bash
set -euo pipefail
. /verif/lib/env.sh
W=$1; shift
mkdir -p "$W"
MOD=$REPO/collector/processor/obfuscationprocessor
python3 - "$W" "$MOD" <<'PY'
import json,os,sys
W,MOD=sys.argv[1],sys.argv[2]
V=os.environ['VERIF']
rep={}
for f in os.listdir(f'{V}/engines/obfmc'):
    if f.endswith('.go'):
        rep[f'{MOD}/zzverif/obfmc/{f}']=f'{V}/engines/obfmc/{f}'
json.dump({'Replace':rep},open(f'{W}/ov_obf.json','w'),indent=1)
PY
cd $MOD
go build -overlay "$W/ov_obf.json" "$@" -o "$W/obfmc" ./zzverif/obfmc
