#!/bin/bash
# build_bpx.sh <workdir> [extra go build flags...]: rewrites the batch processor
# sources from /repo's working tree and builds the bpx explorer against them.
set -euo pipefail
. /verif/lib/env.sh
W=$1; shift
mkdir -p "$W/rw"
if [ ! -x $VERIF/bin/vsrewrite ]; then
  (cd $VERIF/engines/vsrewrite && go build -o $VERIF/bin/vsrewrite .)
fi
$VERIF/bin/vsrewrite -pkg $BPMOD -out "$W/rw" -vs $BPIMP/zzverif/vs -overlay "$W/ov_rw.json" 2>/dev/null
if [ "$(cat "$W/rw/select_default_sites" 2>/dev/null)" != "1" ]; then
  echo "note: the processor has $(cat "$W/rw/select_default_sites" 2>/dev/null) select statements with a default arm; the model's treatment of non-blocking partners was argued for one (DESIGN.md appendix A)" >&2
fi
python3 - "$W" <<'PY'
import json,os,sys
W=sys.argv[1]
mod=os.environ['BPMOD']; V=os.environ['VERIF']
rep=json.load(open(W+'/ov_rw.json'))['Replace']
for root,dirs,files in os.walk(V+'/engines/vs'):
    for f in files:
        if f.endswith('.go') and not f.endswith('_test.go'):
            src=os.path.join(root,f)
            rel=os.path.relpath(src,V+'/engines/vs')
            rep[mod+'/zzverif/vs/'+rel]=src
for f in os.listdir(V+'/engines/bpx'):
    if f.endswith('.go') and not f.endswith('_test.go'):
        rep[mod+'/zzverif/bpx/'+f]=V+'/engines/bpx/'+f
for f in os.listdir(V+'/engines/vsconf'):
    if f.endswith('.go'):
        rep[mod+'/zzverif/vsconf/'+f]=V+'/engines/vsconf/'+f
json.dump({'Replace':rep},open(W+'/ov.json','w'),indent=1)
PY
cd $BPMOD
go build -overlay "$W/ov.json" "$@" -o "$W/bpx" ./zzverif/bpx
